"""Context-sensitive inlining interpreter: builds the event graph (effect
automaton, DESIGN 2.4-2.6) of one entry point in one context.

Statements live here, expressions / calls in interp_expr.py.
"""
import ast

from . import AnalysisError
from .graph import Graph, Val, show
from .model import ABC_MOD, ClassInfo, ExtClass, FuncInfo, Inst, Method, Opaque, Prop, BoundCM
from .interp_expr import ExprMixin

import sys
sys.setrecursionlimit(20000)
MAX_DEPTH = 40

BUILTIN_EXC = {
    "KeyError": "LookupError",
    "IndexError": "LookupError",
    "LookupError": "Exception",
    "ValueError": "Exception",
    "TypeError": "Exception",
    "AttributeError": "Exception",
    "RuntimeError": "Exception",
    "NotImplementedError": "RuntimeError",
    "OSError": "Exception",
    "IOError": "Exception",
    "FileNotFoundError": "OSError",
    "PermissionError": "OSError",
    "StopIteration": "Exception",
    "ImportError": "Exception",
    "UnicodeDecodeError": "ValueError",
    "json.JSONDecodeError": "ValueError",
    "JSONDecodeError": "ValueError",
    "Exception": "BaseException",
    "KeyboardInterrupt": "BaseException",
    "BaseException": None,
}


class Ctx:
    """Analysis context (DESIGN 2.6): receiver class, root/nested receiver,
    buffering mode, write_concern fact.  Threading is a property of the Model.
    """

    def __init__(self, cls, rho="root", mu="none", wc=None, counts=None, opaque=(), inline_ctor=False, label=None):
        self.cls = cls
        self.rho = rho
        self.mu = mu  # none | obj | backend
        self.wc = wc
        self.counts = counts or {}
        self.opaque = set(opaque)
        self.inline_ctor = inline_ctor
        self.label = label

    def key(self):
        return f"{self.cls.name}:{self.rho}:{self.mu}" + (f":wc={self.wc}" if self.wc is not None else "")


class Frame:
    def __init__(self, func, recv, defining_cls):
        self.func = func
        self.recv = recv
        self.defining_cls = defining_cls
        self.env = {}
        self.ret_join = None
        self.ret_vals = []
        self.ret_nodes = []
        self.cleanups = []  # (kind, payload, exc_depth, counts_snapshot)
        self.loops = []  # (head_join, break_join, cleanup_depth)
        self.key = None


class Builder(ExprMixin):
    def __init__(self, model, ctx):
        self.model = model
        self.ctx = ctx
        self.g = Graph()
        self.frames = []
        self.exc_stack = []
        self.counts = {}
        self.objfields = {}
        self.cur_stmt = None
        self.unresolved = []
        self.resolved_calls = 0
        self.recursion_cuts = 0
        self.ret_origin = {}
        self.init_counts()

    # ------------------------------------------------------------ helpers
    def init_counts(self):
        mu = self.ctx.mu
        self.counts = {
            ("T", "_suspend_sync"): 0,
            ("T", "buffered"): 1 if mu == "obj" else 0,
            ("C", "_buffer_context"): 1 if mu == "backend" else 0,
        }
        self.counts.update(self.ctx.counts)

    @property
    def fr(self):
        return self.frames[-1]

    def stack_sig(self):
        out = []
        for f in self.frames:
            sg = getattr(f, "sig", None)
            if sg is None:
                sg = f.sig = (f.func.qualname, show(f.recv) if f.recv is not None else "")
            out.append(sg)
        return tuple(out)

    def node(self, kind, preds, may_raise=False, exc=("*",), **attrs):
        """Create an event node after preds.  Returns {node id} (or empty set
        when preds is empty = dead code)."""
        if not preds:
            return set()
        st = self.cur_stmt
        fr = self.frames[-1] if self.frames else None
        if st is not None and fr is not None:
            loc = (fr.func.module.path, getattr(st, "lineno", 0))
            text = stmt_text(st)
        else:
            loc = ("<entry>", 0)
            text = ""
        n = self.g.add(kind, attrs, loc, fr.func.qualname if fr else "<entry>", self.stack_sig(), text)
        if st is not None:
            n.span = (getattr(st, "lineno", 0), getattr(st, "end_lineno", None) or getattr(st, "lineno", 0))
        for p in preds:
            self.g.link(p, n.id)
        if may_raise:
            n.a["exc"] = frozenset(exc)
            self.raise_from(n.id, exc)
        return {n.id}

    def join(self, what):
        n = self.g.add("join", {"what": what, "exc": set()}, ("<join>", 0), self.frames[-1].func.qualname if self.frames else "<entry>", self.stack_sig(), what)
        return n.id

    def raise_from(self, nid, exc=("*",)):
        tgt = self.exc_stack[-1]
        self.g.link(nid, tgt, "e")
        self.g.nodes[tgt].a.setdefault("exc", set())
        if isinstance(self.g.nodes[tgt].a["exc"], set):
            self.g.nodes[tgt].a["exc"].update(exc)

    def link_all(self, preds, tgt, label="n"):
        for p in preds:
            self.g.link(p, tgt, label)

    # -------------------------------------------------------------- entry
    def run(self, func, recv, args=None, kwargs=None):
        """Build the graph of calling ``func`` on ``recv``; parameters not
        given are bound to symbolic inputs ``$name``."""
        g = self.g
        g.entry = g.add("entry", {"func": func.qualname, "ctx": self.ctx.key()}, (func.module.path, func.node.lineno), func.qualname, (), "").id
        g.exit = g.add("exit", {}, ("<exit>", 0), func.qualname, (), "").id
        g.exc_exit = g.add("exc_exit", {"exc": set()}, ("<exit>", 0), func.qualname, (), "").id
        self.exc_stack = [g.exc_exit]
        preds, rv = self.inline(func, recv, args or [], kwargs or {}, {g.entry}, entry=True)
        self.link_all(preds, g.exit)
        g.nodes[g.exit].a["ret"] = rv
        return g

    # ------------------------------------------------------------- inline
    def bind_params(self, func, frame, recv, args, kwargs, entry):
        a = func.node.args
        params = [p.arg for p in a.posonlyargs + a.args]
        defaults = list(a.defaults)
        env = frame.env
        pos = list(args)
        kw = dict(kwargs)
        if func.kind in ("function", "property", "setter", "classmethod") and func.cls is not None or (func.parent is not None and func.kind == "property"):
            if params:
                env[params[0]] = recv
                params = params[1:]
        elif func.cls is None and recv is not None and params and params[0] in ("self", "cls"):
            env[params[0]] = recv
            params = params[1:]
        # flatten *args / **kwargs passed through
        flat = []
        for x in pos:
            if isinstance(x, Val) and x.kind == "star":
                inner = x.args[0]
                if inner.kind == "args":
                    flat.extend(inner.args)
                elif inner.kind in ("tuple", "list"):
                    flat.extend(inner.args)
                elif inner.kind == "const" and isinstance(inner.args[0], (tuple, list)) and not inner.args[0]:
                    pass
                else:
                    flat.append(Val("unknown", "star-args"))
            else:
                flat.append(x)
        pos = flat
        star_kw_unknown = False
        if "**" in kw:
            for inner in kw.pop("**"):
                if inner.kind == "kwargs":
                    for n, v in inner.args:
                        kw.setdefault(n, v)
                elif inner.kind == "dict":
                    for k, v in inner.args:
                        if k is not None and k.kind == "const":
                            kw.setdefault(k.args[0], v)
                else:
                    star_kw_unknown = True
        nd = len(defaults)
        np_ = len(params)
        for i, p in enumerate(params):
            if i < len(pos):
                env[p] = pos[i]
            elif p in kw:
                env[p] = kw.pop(p)
            else:
                di = i - (np_ - nd)
                if entry or star_kw_unknown:
                    env[p] = Val("param", p)
                elif di >= 0:
                    env[p] = self.default_val(func, defaults[di])
                else:
                    env[p] = Val("param", p)
        extra_pos = pos[np_:]
        if a.vararg is not None:
            env[a.vararg.arg] = Val("args", *extra_pos) if not entry else Val("param", a.vararg.arg)
        for i, p in enumerate(a.kwonlyargs):
            if p.arg in kw:
                env[p.arg] = kw.pop(p.arg)
            elif a.kw_defaults[i] is not None and not entry:
                env[p.arg] = self.default_val(func, a.kw_defaults[i])
            else:
                env[p.arg] = Val("param", p.arg)
        if a.kwarg is not None:
            if entry and not kw:
                env[a.kwarg.arg] = Val("param", a.kwarg.arg)  # caller-supplied keywords: symbolic input
            else:
                env[a.kwarg.arg] = Val("kwargs", *sorted(kw.items(), key=lambda t: t[0]))

    def default_val(self, func, expr):
        try:
            v = self.model.consteval(func.module, expr)
        except Exception:
            return Val("unknown", "default")
        return self.lift(v)

    def local_wrapper(self, func):
        """If ``func`` is decorated with a package-local decorator of the wrapper
        idiom (def deco(f): def w(*a, **k): ... f(*a, **k) ...; return w), return
        (decorator FuncInfo, wrapper FuncInfo, name of the decorator's parameter)."""
        if getattr(func, "_raw_call", False):
            return None
        for d in func.decorators:
            base = d.split(".")[-1]
            if base in ("classmethod", "staticmethod", "property", "abstractmethod", "setter", "getter", "wraps") or d.endswith(".setter"):
                continue
            r = self.model.resolve(func.module, d) if "." not in d else None
            if r is None or r[0] != "func":
                continue
            deco = r[1]
            inner = [f for f in self.model.functions if f.parent is deco]
            params = [a.arg for a in deco.node.args.args]
            if len(inner) == 1 and len(params) == 1:
                return deco, inner[0], params[0]
        return None

    def inline(self, func, recv, args, kwargs, preds, entry=False, defining_cls=None, closure=None, skip_wrapper=False, yield_hook=None):
        """Inline a call of ``func``.  Returns (preds, return value)."""
        if not preds:
            return set(), Val("unknown", "dead")
        if not yield_hook and any(d.split(".")[-1] == "contextmanager" for d in func.decorators):
            # calling a @contextmanager generator function runs nothing; `with` drives it (with_genctx)
            return set(preds), Val("genctx", func, recv, tuple(args), tuple(sorted((kwargs or {}).items())))
        lw = None if (skip_wrapper or yield_hook) else self.local_wrapper(func)
        if lw is not None:
            deco, wrapper, pname = lw
            raw = Val("rawfunc", func, recv)
            wargs = ([recv] if recv is not None else []) + list(args)
            return self.inline(wrapper, None, wargs, kwargs, preds, entry=False, defining_cls=defining_cls, closure={pname: raw}, skip_wrapper=True)
        # activations are distinguished by the abstract counter state too: the
        # suspend depth decides which branches a re-entered _load/_save takes
        key = (func, show(recv) if recv is not None else None, tuple(sorted((str(k), str(v)) for k, v in self.counts.items())))
        via_child = getattr(self, "_child_dispatch", False)
        self._child_dispatch = False
        child_cut = (
            via_child
            and recv is not None
            and recv.kind == "inst"
            and any(f.func is func and f.recv is not None and f.recv.kind == "inst" for f in self.frames)
        )
        # re-entrant context managers (RLock-style nesting) are bounded by the
        # suspend counter, not by this cut: cutting __enter__ but not __exit__
        # would unbalance acquire / release.
        same = sum(1 for f in self.frames if f.key == key)
        limit = 3 if func.name in ("__enter__", "__exit__") else 1
        if child_cut or same >= limit or len(self.frames) >= MAX_DEPTH:
            if len(self.frames) >= MAX_DEPTH:
                raise AnalysisError(
                    "inlining depth bound hit at " + func.qualname + " via " + " > ".join(f.func.qualname for f in self.frames[-8:])
                )
            self.recursion_cuts += 1
            out = self.node("recurse", preds, may_raise=True, func=func.qualname, recv=recv, args=tuple(args))
            return out, Val("call", "recurse:" + func.qualname, recv, tuple(args), ())
        frame = Frame(func, recv, defining_cls or func.cls)
        frame.key = key
        frame.closure = closure or {}
        frame.yield_hook = yield_hook
        saved_stmt = self.cur_stmt
        self.frames.append(frame)
        try:
            self.bind_params(func, frame, recv, args, kwargs, entry)
            frame.ret_join = self.join("return:" + func.qualname)
            argmap = {k: v for k, v in frame.env.items()}
            self.cur_stmt = func.node
            preds = self.node("enter", preds, func=func.qualname, fname=func.name, recv=recv, args=argmap)
            out = self.block(func.node.body, preds)
            # falling off the end
            if out:
                self.cur_stmt = func.node
                frame.ret_vals.append(Val("const", None))
                out = self.node("ret", out, value=Val("const", None), implicit=True)
                frame.ret_nodes.append((next(iter(out)), Val("const", None)))
            self.link_all(out, frame.ret_join)
            self.cur_stmt = func.node
            has_ret = bool(self.g.pred[frame.ret_join])
            rv = self.merge_vals(frame.ret_vals) if frame.ret_vals else Val("const", None)
            if has_ret:
                outp = self.node("leave", {frame.ret_join}, func=func.qualname, fname=func.name, recv=recv, ret=rv)
                if rv.kind == "phi" and len(frame.ret_nodes) >= 2 and not entry:
                    # remember which return statement produced which alternative (for correlated branches)
                    self.ret_origin[rv] = (next(iter(outp)), list(frame.ret_nodes))
            else:
                outp = set()
            return outp, rv
        finally:
            self.frames.pop()
            self.cur_stmt = saved_stmt

    def merge_vals(self, vals):
        uniq = []
        for v in vals:
            if v.kind == "phi":
                for x in v.args:
                    if x not in uniq:
                        uniq.append(x)
            elif v not in uniq:
                uniq.append(v)
        if len(uniq) == 1:
            return uniq[0]
        return Val("phi", *uniq[:8])

    # --------------------------------------------------------- statements
    def block(self, stmts, preds):
        for st in stmts:
            if not preds:
                break
            preds = self.stmt(st, preds)
        return preds

    def stmt(self, st, preds):
        self.cur_stmt = st
        m = getattr(self, "st_" + type(st).__name__, None)
        if m is None:
            # unknown statement kind: opaque, may raise
            return self.node("opaque_stmt", preds, may_raise=True, what=type(st).__name__)
        return m(st, preds)

    def st_Expr(self, st, preds):
        if isinstance(st.value, ast.Constant):
            return preds
        v, preds = self.ev(st.value, preds)
        return preds

    def st_Pass(self, st, preds):
        return preds

    def st_Import(self, st, preds):
        return preds

    st_ImportFrom = st_Import
    st_Global = st_Import
    st_Nonlocal = st_Import

    def st_Assert(self, st, preds):
        v, preds = self.ev(st.test, preds)
        return preds

    def st_FunctionDef(self, st, preds):
        fi = getattr(st, "_funcinfo", None)
        if fi is not None:
            self.fr.env[st.name] = Val("func", fi)
        return preds

    def st_Assign(self, st, preds):
        v, preds = self.ev(st.value, preds)
        for t in st.targets:
            self.cur_stmt = st
            preds = self.assign(t, v, preds)
        return preds

    def st_AnnAssign(self, st, preds):
        if st.value is None:
            return preds
        v, preds = self.ev(st.value, preds)
        return self.assign(st.target, v, preds)

    def st_AugAssign(self, st, preds):
        rhs, preds = self.ev(st.value, preds)
        op = type(st.op).__name__
        t = st.target
        if isinstance(t, ast.Name):
            old = self.lookup_name(t.id)
            self.fr.env[t.id] = Val("bin", op, old, rhs)
            return preds
        if isinstance(t, ast.Attribute):
            base, preds = self.ev(t.value, preds)
            return self.aug_attr(base, t.attr, op, rhs, preds)
        if isinstance(t, ast.Subscript):
            base, preds = self.ev(t.value, preds)
            idx, preds = self.ev(t.slice, preds)
            old, preds = self.load_sub(base, idx, preds)
            return self.store_sub(base, idx, Val("bin", op, old, rhs), preds)
        return self.node("opaque_stmt", preds, may_raise=True, what="augassign")

    def st_Delete(self, st, preds):
        for t in st.targets:
            if isinstance(t, ast.Subscript):
                base, preds = self.ev(t.value, preds)
                idx, preds = self.ev(t.slice, preds)
                preds = self.del_sub(base, idx, preds)
            elif isinstance(t, ast.Attribute):
                base, preds = self.ev(t.value, preds)
                preds = self.node("attr_del", preds, may_raise=True, exc=("AttributeError",), base=base, name=t.attr)
            elif isinstance(t, ast.Name):
                self.fr.env.pop(t.id, None)
        return preds

    def st_Return(self, st, preds):
        fr = self.fr
        if st.value is not None:
            v, preds = self.ev(st.value, preds)
        else:
            v = Val("const", None)
        if not preds:
            return set()
        preds = self.run_cleanups(preds, 0)
        self.cur_stmt = st
        fr.ret_vals.append(v)
        preds = self.node("ret", preds, value=v)
        for p_ in preds:
            fr.ret_nodes.append((p_, v))
        self.link_all(preds, fr.ret_join)
        return set()

    def st_Raise(self, st, preds):
        exc = ("*",)
        v = None
        if st.exc is not None:
            v, preds = self.ev(st.exc, preds)
            nm = exc_name_of(v)
            if nm:
                exc = (nm,)
        else:
            # bare re-raise: the types that reached the handler
            exc = tuple(getattr(self.fr, "handling", ("*",))) or ("*",)
        self.node("raise", preds, may_raise=True, exc=exc, value=v)
        return set()

    def st_If(self, st, preds):
        c, preds = self.ev(st.test, preds)
        t = self.truth(c)
        if not preds:
            return set()
        br = self.node("branch", preds, cond=c, test=ast.unparse(st.test), pruned=t)
        corr = self.correlate(c, preds) if t is None else None
        if corr is not None:
            corr_leave, corr = corr
            self.g.nodes[next(iter(br))].a["correlated"] = True
        env0 = dict(self.fr.env)
        counts0 = dict(self.counts)
        outs = set()
        envs = []
        cnts = []
        for arm, body in ((True, st.body), (False, st.orelse)):
            if t is not None and t != arm:
                continue
            self.fr.env = dict(env0)
            self.counts = dict(counts0)
            (bid,) = br
            armn = self.g.add("arm", {"branch": bid, "arm": arm}, self.g.nodes[bid].loc, self.g.nodes[bid].func, self.g.nodes[bid].stack, self.g.nodes[bid].stmt)
            if corr is None:
                self.g.link(bid, armn.id, "T" if arm else "F")
            else:
                # the helper's return statements decide the arm: no path may combine `return False` with the True arm
                srcs = [r for (r, tv) in corr if tv is arm]
                if not srcs:
                    continue
                # ret -> (copy of the helper's leave node) -> arm: must-pass queries on `leave` still see the return
                ln = self.g.nodes[corr_leave]
                lc = self.g.add("leave", dict(ln.a), ln.loc, ln.func, ln.stack, ln.stmt)
                for r in srcs:
                    self.g.link(r, lc.id, "n")
                self.g.link(lc.id, armn.id, "T" if arm else "F")
            self.refine(c, arm)
            o = self.block(body, {armn.id})
            if o:
                envs.append(self.fr.env)
                cnts.append(self.counts)
            outs |= o
        self.merge_envs(env0, envs)
        self.merge_counts(counts0, cnts)
        return outs

    def correlate(self, cond, preds):
        """If the branch condition is decided by WHICH return statement of a just-inlined helper ran
        (`if self._helper(...):`, `x = helper(); if x is None:`), return [(ret node id, truth)], else None.
        Only used when nothing with an effect lies between the call's return and the branch."""
        target = None
        for v in cond.walk():
            if v.kind == "phi" and v in self.ret_origin:
                target = v
                break
        if target is None:
            return None
        leave_id, rets = self.ret_origin[target]
        # the branch must directly follow the call (only joins in between)
        cur = set(preds)
        for _ in range(6):
            if cur == {leave_id}:
                break
            nxt = set()
            for p_ in cur:
                n_ = self.g.nodes[p_]
                if p_ == leave_id:
                    nxt.add(p_)
                elif n_.kind in ("join",) and len(self.g.pred[p_]) >= 1:
                    nxt.update(x for (x, l) in self.g.pred[p_])
                else:
                    return None
            cur = nxt
        if cur != {leave_id}:
            return None
        out = []
        for (rid, val) in rets:
            tv = self.truth(self.subst(cond, target, val))
            if tv is None:
                return None
            out.append((rid, tv))
        if len({tv for _, tv in out}) < 2:
            return None
        return leave_id, out

    def subst(self, v, old, new):
        if v == old:
            return new
        if not isinstance(v, Val):
            return v
        changed = False
        args = []
        for a in v.args:
            if isinstance(a, Val):
                b = self.subst(a, old, new)
                changed |= b is not a
                args.append(b)
            elif isinstance(a, tuple):
                t_ = tuple(self.subst(x, old, new) if isinstance(x, Val) else x for x in a)
                changed |= any(x is not y for x, y in zip(t_, a))
                args.append(t_)
            else:
                args.append(a)
        return Val(v.kind, *args) if changed else v

    def refine(self, cond, arm):
        """Record simple facts implied by taking a branch (None-ness of a local;
        a parameter known to be a collection of the receiver's class)."""
        if arm and cond.kind == "call" and cond.args[0] == "isinstance" and len(cond.args[2]) == 2:
            obj, klass = cond.args[2]
            if obj.kind == "param" and klass.kind == "cls":
                inst = Val("inst", klass.args[0], "root", "P:" + str(obj.args[0]))
                for k, v in list(self.fr.env.items()):
                    if v == obj:
                        self.fr.env[k] = inst
        if cond.kind == "cmp" and cond.args[0] in ("is", "is not") and cond.args[2] == Val("const", None):
            is_none = (cond.args[0] == "is") == arm
            tgt = cond.args[1]
            if is_none:
                for k, v in list(self.fr.env.items()):
                    if v == tgt:
                        self.fr.env[k] = Val("const", None)

    def merge_envs(self, env0, envs):
        if not envs:
            self.fr.env = dict(env0)
            return
        if len(envs) == 1:
            self.fr.env = envs[0]
            return
        out = {}
        keys = set()
        for e in envs:
            keys |= set(e)
        for k in keys:
            vals = [e[k] for e in envs if k in e]
            out[k] = self.merge_vals(vals)
        self.fr.env = out

    def merge_counts(self, c0, cnts):
        if not cnts:
            self.counts = dict(c0)
            return
        out = {}
        for k in set().union(*[set(c) for c in cnts]):
            dflt = self.param_tree_default(k)
            vs = {c.get(k, dflt) for c in cnts}
            out[k] = vs.pop() if len(vs) == 1 else None
        self.counts = out

    def st_While(self, st, preds):
        head = self.join("loop-head")
        self.link_all(preds, head)
        brk = self.join("loop-exit")
        c, hp = self.ev(st.test, {head})
        t = self.truth(c)
        self.fr.loops.append((head, brk, len(self.fr.cleanups)))
        env0 = dict(self.fr.env)
        body_out = self.block(st.body, hp if t is not False else set())
        self.fr.loops.pop()
        self.link_all(body_out, head)
        self.merge_envs(env0, [env0, self.fr.env])
        outs = set()
        if t is not True:
            self.cur_stmt = st
            outs |= self.block(st.orelse, hp) if st.orelse else hp
        if self.g.pred[brk]:
            outs.add(brk)
        return outs

    def st_For(self, st, preds):
        it = st.iter
        if isinstance(it, ast.Call) and isinstance(it.func, ast.Name) and it.func.id == "iter" and len(it.args) == 2 and not it.keywords:
            # for x in iter(f, sentinel): body  ==  while True: x' = f(); if x' == sentinel: [orelse]; break; x = x'; body
            tmp = f"__iter_{st.lineno}_{st.col_offset}"
            is_none = isinstance(it.args[1], ast.Constant) and it.args[1].value is None
            test = ast.Compare(left=ast.Name(id=tmp, ctx=ast.Load()), ops=[ast.Is() if is_none else ast.Eq()], comparators=[it.args[1]])
            stop = ast.If(test=test, body=list(st.orelse) + [ast.Break()], orelse=[])
            loop = ast.While(test=ast.Constant(value=True),
                             body=[ast.Assign(targets=[ast.Name(id=tmp, ctx=ast.Store())], value=ast.Call(func=it.args[0], args=[], keywords=[])), stop,
                                   ast.Assign(targets=[st.target], value=ast.Name(id=tmp, ctx=ast.Load()))] + list(st.body), orelse=[])
            for n in ast.walk(loop):
                if not hasattr(n, "lineno"):
                    ast.copy_location(n, st)
                if not hasattr(n, "end_lineno") or getattr(n, "end_lineno", None) is None:
                    n.end_lineno, n.end_col_offset = st.lineno, st.col_offset
            for n in ast.walk(loop):
                for c in ast.iter_child_nodes(n):
                    if not hasattr(c, "_parent") or c in (stop, loop) or isinstance(c, ast.Assign) and c in loop.body:
                        c._parent = n
            loop._parent = getattr(st, "_parent", None)
            return self.st_While(loop, preds)
        itv, preds = self.ev(st.iter, preds)
        itv, preds = self.iterate(itv, preds)
        head = self.join("loop-head")
        self.link_all(preds, head)
        brk = self.join("loop-exit")
        self.fr.loops.append((head, brk, len(self.fr.cleanups)))
        env0 = dict(self.fr.env)
        self.cur_stmt = st
        bp = self.assign(st.target, self.elem_of(itv), {head})
        body_out = self.block(st.body, bp)
        self.fr.loops.pop()
        self.link_all(body_out, head)
        self.merge_envs(env0, [env0, self.fr.env])
        outs = self.block(st.orelse, {head}) if st.orelse else {head}
        if self.g.pred[brk]:
            outs = set(outs) | {brk}
        return outs

    def st_Break(self, st, preds):
        head, brk, cd = self.fr.loops[-1]
        preds = self.run_cleanups(preds, cd)
        self.link_all(preds, brk)
        return set()

    def st_Continue(self, st, preds):
        head, brk, cd = self.fr.loops[-1]
        preds = self.run_cleanups(preds, cd)
        self.link_all(preds, head)
        return set()

    def run_cleanups(self, preds, down_to):
        """Run pending with-exits / finally blocks (innermost first) for a
        return / break / continue."""
        fr = self.fr
        saved_exc = list(self.exc_stack)
        saved_cleanups = list(fr.cleanups)
        saved_stmt = self.cur_stmt
        try:
            for i in range(len(saved_cleanups) - 1, down_to - 1, -1):
                kind, payload, exc_depth, _ = saved_cleanups[i]
                self.exc_stack = saved_exc[:exc_depth]
                fr.cleanups = saved_cleanups[:i]
                if kind == "with":
                    cm, wst = payload
                    self.cur_stmt = wst
                    _, preds = self.call_method(cm, "__exit__", [Val("const", None)] * 3, {}, preds)
                else:
                    preds = self.block(payload, preds)
                if not preds:
                    break
        finally:
            self.exc_stack = saved_exc
            fr.cleanups = saved_cleanups
            self.cur_stmt = saved_stmt
        return preds

    def st_With(self, st, preds):
        return self.with_items(st, 0, preds)

    def with_items(self, st, i, preds):
        if i == len(st.items):
            return self.block(st.body, preds)
        item = st.items[i]
        self.cur_stmt = st
        cm, preds = self.ev(item.context_expr, preds)
        if cm.kind == "genctx":
            return self.with_genctx(st, i, item, cm, preds)
        ev_, preds = self.call_method(cm, "__enter__", [], {}, preds)
        if item.optional_vars is not None:
            preds = self.assign(item.optional_vars, ev_, preds)
        if not preds:
            return set()
        fr = self.fr
        counts_after_enter = dict(self.counts)
        exc_join = self.join("with-exc")
        fr.cleanups.append(("with", (cm, st), len(self.exc_stack), counts_after_enter))
        self.exc_stack.append(exc_join)
        body_out = self.with_items(st, i + 1, preds)
        self.exc_stack.pop()
        fr.cleanups.pop()
        self.cur_stmt = st
        _, out = self.call_method(cm, "__exit__", [Val("const", None)] * 3, {}, body_out)
        counts_normal = dict(self.counts)
        # exceptional leave
        if self.g.pred[exc_join]:
            self.counts = dict(counts_after_enter)
            ex = Val("unknown", "exc")
            self.cur_stmt = st
            rv, epreds = self.call_method(cm, "__exit__", [ex, ex, ex], {}, {exc_join})
            exc_types = tuple(self.g.nodes[exc_join].a.get("exc") or ("*",))
            t = self.truth(rv)
            if t is not True:
                for p in epreds:
                    self.raise_from(p, exc_types)
            if t is not False and t is not None:
                out = set(out) | set(epreds)
            elif t is None and rv.kind not in ("const",):
                # __exit__ with an unknown result may swallow the exception
                out = set(out) | set(epreds)
        self.counts = counts_normal if body_out else dict(counts_after_enter)
        return out

    def with_genctx(self, st, i, item, cm, preds):
        """`with gen_cm(...) as x: BODY` for a @contextmanager generator: the generator's body is inlined and BODY runs
        at its `yield` (in the caller's frame).  An exception in BODY is raised at the yield, inside whatever
        with/try blocks of the generator enclose it - exactly contextlib's throw().  Not modelled: a return /
        break / continue inside BODY (the generator's clean-up after the yield is then skipped by the model)."""
        func, recv, args, kwargs = cm.args
        depth0 = len(self.frames)

        def hook(value, ypreds):
            saved_frames, saved_stmt = self.frames, self.cur_stmt
            self.frames = saved_frames[:depth0]
            try:
                p_ = ypreds
                if item.optional_vars is not None:
                    p_ = self.assign(item.optional_vars, value, p_)
                return self.with_items(st, i + 1, p_)
            finally:
                self.frames, self.cur_stmt = saved_frames, saved_stmt

        out, _rv = self.inline(func, recv, list(args), dict(kwargs), preds, yield_hook=hook)
        self.cur_stmt = st
        return out

    def st_Try(self, st, preds):
        fr = self.fr
        has_fin = bool(st.finalbody)
        counts0 = dict(self.counts)
        if has_fin:
            fin_join = self.join("finally-exc")
            fr.cleanups.append(("finally", st.finalbody, len(self.exc_stack), counts0))
            self.exc_stack.append(fin_join)
        if st.handlers:
            h_join = self.join("except")
            self.exc_stack.append(h_join)
            body_out = self.block(st.body, preds)
            self.exc_stack.pop()
        else:
            body_out = self.block(st.body, preds)
        env_body = dict(self.fr.env)
        outs = self.block(st.orelse, body_out)
        envs = [self.fr.env] if outs else []
        if st.handlers and self.g.pred[h_join]:
            reaching = set(self.g.nodes[h_join].a.get("exc") or {"*"})
            remaining = set(reaching)
            for h in st.handlers:
                names = self.handler_types(h)
                matched = {t for t in reaching if self.may_match(t, names)}
                if not matched:
                    continue
                self.fr.env = dict(env_body)
                self.counts = dict(counts0)
                if h.name:
                    self.fr.env[h.name] = Val("unknown", "exc")
                self.cur_stmt = h
                hp = self.node("handler", {h_join}, types=tuple(sorted(names)), matched=tuple(sorted(matched)))
                old = getattr(fr, "handling", None)
                fr.handling = tuple(sorted(matched))
                o = self.block(h.body, hp)
                fr.handling = old
                if o:
                    envs.append(self.fr.env)
                outs = set(outs) | o
                remaining = {t for t in remaining if not self.must_match(t, names)}
            if remaining:
                self.raise_from(h_join, tuple(sorted(remaining)))
        self.merge_envs(env_body, envs)
        if has_fin:
            self.exc_stack.pop()
            fr.cleanups.pop()
            normal = self.block(st.finalbody, outs)
            if self.g.pred[fin_join]:
                self.counts = dict(counts0)
                env_save = self.fr.env
                self.fr.env = dict(env_save)
                eo = self.block(st.finalbody, {fin_join})
                self.fr.env = env_save
                types = tuple(self.g.nodes[fin_join].a.get("exc") or ("*",))
                for p in eo:
                    self.raise_from(p, types)
            return normal
        return outs

    def handler_types(self, h):
        if h.type is None:
            return {"BaseException"}
        elts = h.type.elts if isinstance(h.type, ast.Tuple) else [h.type]
        out = set()
        for e in elts:
            d = ast.unparse(e)
            out.add(d.split(".")[-1])
        return out

    def exc_supers(self, name):
        """All ancestors of an exception type name (incl. itself)."""
        out = [name]
        seen = set()
        cur = name
        while cur and cur not in seen:
            seen.add(cur)
            nxt = None
            if cur in BUILTIN_EXC:
                nxt = BUILTIN_EXC[cur]
            else:
                for c in self.model.class_order:
                    if c.name == cur:
                        for b in c.bases:
                            nxt = b.name.split(".")[-1]
                            break
                        break
            if nxt:
                out.append(nxt)
            cur = nxt
        return out

    def may_match(self, t, names):
        if t == "*":
            return True
        sup = self.exc_supers(t)
        if any(s in names for s in sup):
            return True
        # an unknown exception class could be a subclass of anything
        if t not in BUILTIN_EXC and not any(c.name == t for c in self.model.class_order):
            return True
        return False

    def must_match(self, t, names):
        if "BaseException" in names:
            return True
        if t == "*":
            return False
        return any(s in names for s in self.exc_supers(t))


def exc_name_of(v):
    if v is None:
        return None
    if v.kind == "call" and isinstance(v.args[0], str) and v.args[0].startswith("new:"):
        return v.args[0][4:]
    if v.kind == "classref":
        return v.args[0].name
    if v.kind == "ext":
        return v.args[0].split(".")[-1]
    return None


def stmt_text(st):
    """Normalised one-line text of a statement (header only for compound
    statements); used in finding keys instead of line numbers."""
    t = getattr(st, "_vsa_text", None)
    if t is not None:
        return t
    t = _stmt_text(st)
    try:
        st._vsa_text = t
    except Exception:
        pass
    return t


def _stmt_text(st):
    try:
        if isinstance(st, (ast.FunctionDef, ast.AsyncFunctionDef)):
            return f"def {st.name}(...)"
        if isinstance(st, ast.With):
            return "with " + ", ".join(ast.unparse(i.context_expr) + (f" as {ast.unparse(i.optional_vars)}" if i.optional_vars else "") for i in st.items) + ":"
        if isinstance(st, ast.If):
            return "if " + ast.unparse(st.test) + ":"
        if isinstance(st, ast.While):
            return "while " + ast.unparse(st.test) + ":"
        if isinstance(st, ast.For):
            return "for " + ast.unparse(st.target) + " in " + ast.unparse(st.iter) + ":"
        if isinstance(st, ast.Try):
            return "try:"
        if isinstance(st, ast.ExceptHandler):
            return "except " + (ast.unparse(st.type) if st.type else "") + ":"
        s = ast.unparse(st)
        return " ".join(s.split())[:200]
    except Exception:
        return type(st).__name__
