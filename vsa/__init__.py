"""vsa - static analysis engine for synced_collections (see /verif/DESIGN.md).

Nothing in this package imports or executes the analysed repository.
"""


class AnalysisError(Exception):
    """The engine cannot judge the tree (anchor vanished, construct outside the
    interpreted subset, instance count under its floor).  Exit code 2."""
