"""Self-test corpus (DESIGN section 6): firing variants (one rule instance
broken; still compiles) and silent variants (behaviour-preserving refactors).

Each variant is a list of textual edits (relative file, old, new) applied to a
scratch copy of the analysed tree.  `fires` maps property id -> rule-id prefix
that must be reported as an unlisted violation; a silent variant must produce
no unlisted violation for any property in `props`.
"""

DT = "data_types/"
BUF = "buffers/"
BK = "backends/"

FIRING = [
    # ------------------------------------------------------------------ C01
    dict(id="c01-insert-no-context", fires={"C01": "C01.a", "C04": "C04.a", "C09": "C09.a"},
         edits=[(DT + "synced_list.py", """        self._validate(item)
        with self._load_and_save, self._suspend_sync:
            self._data.insert(index, self._from_base(data=item, parent=self))""",
                 """        self._validate(item)
        self._data.insert(index, self._from_base(data=item, parent=self))""")]),
    dict(id="c01-setitem-swapped-contexts", fires={"C01": "C01.a"},
         edits=[(DT + "synced_dict.py", """        with self._load_and_save, self._suspend_sync:
            self._data[key] = self._from_base(value, parent=self)""",
                 """        with self._suspend_sync, self._load_and_save:
            self._data[key] = self._from_base(value, parent=self)""")]),
    dict(id="c01-save-skips-nested", fires={"C01": "C01."},
         edits=[(DT + "synced_collection.py", """            if self._root is None:
                self._save_to_resource()
            else:
                self._root._save()""", """            if self._root is None:
                self._save_to_resource()""")]),
    dict(id="c01-redis-writes-data-only", fires={"C01": "C01.c"},
         edits=[(BK + "collection_redis.py", "self._key, json.dumps(self, cls=SyncedCollectionJSONEncoder).encode()", "self._key, json.dumps({}).encode()")]),
    dict(id="c01-to-base-skips-falsy", fires={"C01": "C01.d"},
         edits=[(DT + "synced_dict.py", """        for key, value in self._data.items():
            switch_type = _sc_resolver.get_type(value)""", """        for key, value in self._data.items():
            if not value:
                continue
            switch_type = _sc_resolver.get_type(value)""")]),
    # ------------------------------------------------------------------ C02
    dict(id="c02-keys-without-load", fires={"C02": "C02.a"},
         edits=[(DT + "synced_dict.py", """    def keys(self):  # noqa: D102
        self._load()""", """    def keys(self):  # noqa: D102
        pass""")]),
    dict(id="c02-load-discards-data", fires={"C02": "C02.b"},
         edits=[(DT + "synced_collection.py", """                data = self._load_from_resource()
                with self._suspend_sync:
                    self._update(data)""", """                data = self._load_from_resource()
                with self._suspend_sync:
                    self._update(None)""")]),
    dict(id="c02-no-inplace-merge", fires={"C02": "C02.e"},
         edits=[(DT + "synced_dict.py", """                                existing._update(new_value)
                                continue""", """                                existing._update(new_value)""")]),
    dict(id="c02-loader-swallows-oserror", fires={"C02": "C02.f"},
         edits=[(BK + "collection_json.py", """            if error.errno == errno.ENOENT:
                return None
            else:
                raise""", """            return None""")]),
    dict(id="c02-none-guard-removed", fires={"C02": "C02.d"},
         edits=[(DT + "synced_list.py", """                        data[i] is not None
                        and _sc_resolver.get_type(self._data[i]) == "SYNCEDCOLLECTION\"""", """                        True
                        and _sc_resolver.get_type(self._data[i]) == "SYNCEDCOLLECTION\"""")]),
    # ------------------------------------------------------------------ C03
    dict(id="c03-ge-uses-gt", fires={"C03": "C03.a"},
         edits=[(DT + "synced_list.py", """            return self() >= other()
        else:
            return self() >= other""", """            return self() >= other()
        else:
            return self() > other""")]),
    dict(id="c03-insert-off-by-one", fires={"C03": "C03.c"},
         edits=[(DT + "synced_list.py", "self._data.insert(index, self._from_base(data=item, parent=self))", "self._data.insert(index + 1, self._from_base(data=item, parent=self))")]),
    dict(id="c03-remove-mutates-before-lookup", fires={"C03": "C03.b"},
         edits=[(DT + "synced_list.py", """            self._data.remove(self._from_base(data=value, parent=self))""", """            self._data.append(None)
            self._data.remove(self._from_base(data=value, parent=self))
            self._data.pop()""")]),
    # ------------------------------------------------------------------ C04
    dict(id="c04-pop-thread-lock-only", fires={"C04": "C04.a"},
         edits=[(DT + "synced_dict.py", """        with self._load_and_save:
            ret = self._data.pop(key, default)
        return ret""", """        with self._thread_lock:
            ret = self._data.pop(key, default)
            self._save()
        return ret""")]),
    dict(id="c04-nested-clear-shortcut", fires={"C04": "C04.a", "C09": "C09."},
         edits=[(DT + "synced_dict.py", """        if self._root is None:
            # Clearing the root is destructive, so no load is required, but the
            # change and the save must not be interleaved with other writers.
            with self._save_only:""", """        if True:
            # Clearing the root is destructive, so no load is required, but the
            # change and the save must not be interleaved with other writers.
            with self._thread_lock:""")]),
    # ------------------------------------------------------------------ C05
    dict(id="c05-save-ignores-buffering", fires={"C05": "C05.a"},
         edits=[(BUF + "buffered_collection.py", """                if self._is_buffered:
                    self._save_to_buffer()
                else:
                    self._save_to_resource()""", """                self._save_to_resource()""")]),
    dict(id="c05-is-buffered-drops-class-counter", fires={"C05": "C05."},
         edits=[(BUF + "buffered_collection.py", "return self.buffered or type(self)._buffer_context", "return bool(self.buffered)")]),
    dict(id="c05-callback-before-decrement", fires={"C05": "C05.c"},
         edits=[("utils.py", """        super().__exit__(exc_type, exc_val, exc_tb)
        if not self:
            self._func()""", """        if self._count == 1:
            self._func()
        super().__exit__(exc_type, exc_val, exc_tb)""")]),

    dict(id="c05-flush-dict-only", fires={"C05": "C05.e"},
         edits=[(BUF + "memory_buffered_collection.py", """            data = self._to_base()
            self._data = type(self._data)()
            self._update(data, _validate=True)""", """            data = self._to_base()
            self._data = type(self._data)()
            self._update(dict(data.items()), _validate=True)""")]),
    dict(id="c05-second-object-save-not-stored", fires={"C05": "C05.f"},
         edits=[(BUF + "memory_buffered_collection.py", """                type(self)._buffer[self._filename]["contents"] = self._data
""", "")]),
    dict(id="c10-root-clear-col-then-buf", fires={"C10": "C10.c"},
         edits=[(DT + "synced_list.py", """            with self._save_only:
                self._data.clear()""", """            with self._thread_lock:
                self._data.clear()
                self._save()""")]),
    dict(id="c12-untyped-equality-shortcut", fires={"C12": "C12.d"},
         edits=[(DT + "synced_list.py", "if data[i] == self._data[i] and type(data[i]) is type(self._data[i]):", "if data[i] == self._data[i]:")]),
    dict(id="c05-memory-flush-writes-own-data", fires={"C05": "C05.g"},
         edits=[(BUF + "memory_buffered_collection.py", """                self._data = cached_data["contents"]

""", "")]),
    dict(id="c07-registry-not-restored-on-conflict", fires={"C07": "C07.c"},
         edits=[(BUF + "file_buffered_collection.py", """        with cls._BUFFER_LOCK:
            cls._buffered_collections.update(remaining_collections)
        if issues:
            raise BufferedError(issues)""", """        if issues:
            raise BufferedError(issues)
        with cls._BUFFER_LOCK:
            cls._buffered_collections.update(remaining_collections)""")]),
    # ---------------------------------------------------- second-generation rules
    dict(id="c16-setdefault-returns-raw-default", fires={"C16": "C16.e"},
         edits=[(DT + "synced_dict.py", """                    ret = self._data[key] = self._from_base(default, parent=self)""", """                    self._data[key] = self._from_base(default, parent=self)
                    ret = default""")]),
    dict(id="c18-single-underscore-prefix", fires={"C18": "C18.d"},
         edits=[(DT + "attr_dict.py", """        if key in self._PROTECTED_KEYS or key.startswith("__"):
            super().__setattr__(key, value)""", """        if key in self._PROTECTED_KEYS or key.startswith("_"):
            super().__setattr__(key, value)"""),
                (DT + "attr_dict.py", """        if key in self._PROTECTED_KEYS or key.startswith("__"):
            super().__delattr__(key)""", """        if key in self._PROTECTED_KEYS or key.startswith("_"):
            super().__delattr__(key)""")]),
    dict(id="c02-truthiness-guard", fires={"C02": "C02.h"},
         edits=[(DT + "synced_dict.py", "                            new_value is not None\n", "                            new_value\n")]),
    dict(id="c02-child-merge-unprotected", fires={"C02": "C02.i"},
         edits=[(DT + "synced_list.py", """                        try:
                            self._data[i]._update(data[i])
                            continue
                        except ValueError:
                            pass""", """                        self._data[i]._update(data[i])
                        continue""")]),
    dict(id="c11-validate-shortcut", fires={"C11": "C11.e"},
         edits=[(DT + "synced_collection.py", """        for validator in self._all_validators:
            validator(data)""", """        if isinstance(data, SyncedCollection):
            return
        for validator in self._all_validators:
            validator(data)""")]),
    dict(id="c07-counter-not-decremented-on-error", fires={"C07": "C07.d"},
         edits=[(BUF + "file_buffered_collection.py", """        try:
            super().__exit__(exc_type, exc_val, exc_tb)
        finally:
            # The capacity must be restored even if the flush raises.
            original_buffer_capacity = self._original_buffer_capacitys.pop()
            if original_buffer_capacity is not None:
                self._cls.set_buffer_capacity(original_buffer_capacity)""", """        original_buffer_capacity = self._original_buffer_capacitys.pop()
        if original_buffer_capacity is not None:
            self._cls.set_buffer_capacity(original_buffer_capacity)
        super().__exit__(exc_type, exc_val, exc_tb)""")]),
    dict(id="c07-return-in-finally-swallows", fires={"C07": "C07.g"},
         edits=[(BUF + "serialized_file_buffered_collection.py", """        if type(self)._CURRENT_BUFFER_SIZE > type(self)._BUFFER_CAPACITY:
            type(self)._flush_buffer(force=True)
        return self._decode(blob)""", """        try:
            if type(self)._CURRENT_BUFFER_SIZE > type(self)._BUFFER_CAPACITY:
                type(self)._flush_buffer(force=True)
        finally:
            return self._decode(blob)""")]),
    dict(id="c07-metadata-refresh-unconditional", fires={"C07": "C07.f"},
         edits=[(BUF + "memory_buffered_collection.py", """                    else:
                        cached_data["modified"] = False""", """                    else:
                        cached_data["modified"] = False
                        cached_data["metadata"] = self._get_file_metadata()""")]),
    dict(id="c01-exit-skips-save-on-error", fires={"C01": "C01.e"},
         edits=[(DT + "synced_collection.py", """        try:
            self._collection._save()
        finally:""", """        try:
            if exc_type is None:
                self._collection._save()
        finally:""")]),
    dict(id="c08-text-mode-write", fires={"C08": "C08.a"},
         edits=[(BK + "collection_json.py", """            with open(self._filename, "wb") as file:
                file.write(blob)""", """            with open(self._filename, "w") as file:
                file.write(blob.decode())""")]),
    dict(id="c08-flag-set-only-at-class-creation", fires={"C08": "C08.c"},
         edits=[(DT + "synced_collection.py", """            cls._thread_lock = _thread_lock
            cls._threading_support_is_active = True""", """            cls._thread_lock = _thread_lock"""),
                (DT + "synced_collection.py", """            cls._locks = {}
            cls.enable_multithreading()""", """            cls._locks = {}
            cls.enable_multithreading()
            cls._threading_support_is_active = True""")]),
    dict(id="c10-lock-table-written-unlocked", fires={"C10": "C10.e"},
         edits=[(DT + "synced_collection.py", """            with self._cls_lock:
                if self._lock_id not in self._locks:
                    self._locks[self._lock_id] = RLock()""", """            if self._lock_id not in self._locks:
                self._locks[self._lock_id] = RLock()""")]),
    dict(id="c12-update-own-type-test", fires={"C12": "C12.e"},
         edits=[(DT + "synced_list.py", """        elif _sequence_resolver.get_type(data) == "SEQUENCE":
            with self._suspend_sync:""", """        elif isinstance(data, Sequence) or _is_atleast_1d_numpy_array(data):
            with self._suspend_sync:""")]),
    dict(id="c16-to-base-wrong-resolver", fires={"C16": "C16.f"},
         edits=[(DT + "synced_list.py", """            switch_type = _sc_resolver.get_type(value)
            if switch_type == "SYNCEDCOLLECTION":
                converted.append(value._to_base())""", """            switch_type = _sequence_resolver.get_type(value)
            if switch_type == "SEQUENCE":
                converted.append(value._to_base())""")]),
    dict(id="c18-iter-returns-copy", fires={"C18": "C18.f"},
         edits=[(DT + "synced_collection.py", """        self._load()
        return iter(self._data)""", """        return iter(self())""")]),
    dict(id="c19-global-negative-memo", fires={"C19": "C19.c"},
         edits=[(DT + "synced_collection.py", """_collection_resolver = AbstractTypeResolver(""", """_plain_types = set()

_collection_resolver = AbstractTypeResolver("""),
                (DT + "synced_collection.py", """        return _convert_numpy(data)""", """        _plain_types.add(type(data))
        return _convert_numpy(data)""")]),
    # ------------------------------------------------------------------ C06
    dict(id="c06-flush-decides-on-own-data", fires={"C06": "C06.a"},
         edits=[(BUF + "memory_buffered_collection.py", """                    if cached_data["modified"]:
                        if cached_data["metadata"] != self._get_file_metadata():""", """                    if cached_data["modified"] and len(self._data) > 0:
                        if cached_data["metadata"] != self._get_file_metadata():""")]),
    dict(id="c06-load-from-buffer-returns-own-copy", fires={"C06": "C06.c"},
         edits=[(BUF + "serialized_file_buffered_collection.py", "        return self._decode(blob)", "        return self._to_base()")]),
    dict(id="c06-no-registration", fires={"C06": "C06.d"},
         edits=[(BUF + "memory_buffered_collection.py", """        with self._buffer_lock:
            type(self)._buffered_collections[id(self)] = self

            if self._filename in type(self)._buffer:""", """        with self._buffer_lock:
            if self._filename in type(self)._buffer:""")]),
    # ------------------------------------------------------------------ C07
    dict(id="c07-check-after-write", fires={"C07": "C07.a"},
         edits=[(BUF + "memory_buffered_collection.py", """                        if cached_data["metadata"] != self._get_file_metadata():
                            raise MetadataError(self._filename, cached_data["contents"])
                        self._save_to_resource()""", """                        self._save_to_resource()
                        if cached_data["metadata"] != self._get_file_metadata():
                            raise MetadataError(self._filename, cached_data["contents"])""")]),
    dict(id="c07-delete-not-in-finally", fires={"C07": "C07.b"},
         edits=[(BUF + "serialized_file_buffered_collection.py", """                            self._update(self._decode(cached_data["contents"]))
                            self._save_to_resource()
                    finally:
                        # Whether or not an error was raised, the cache must be
                        # cleared to ensure a valid final buffer state.
                        del type(self)._buffer[self._filename]""", """                            self._update(self._decode(cached_data["contents"]))
                            self._save_to_resource()
                        del type(self)._buffer[self._filename]
                    finally:
                        # Whether or not an error was raised, the cache must be
                        # cleared to ensure a valid final buffer state.
                        pass""")]),
    dict(id="c07-flush-buffer-breaks-on-error", fires={"C07": "C07.c"},
         edits=[(BUF + "file_buffered_collection.py", """            except (OSError, MetadataError) as err:
                issues[collection._filename] = err""", """            except (OSError, MetadataError) as err:
                issues[collection._filename] = err
                break""")]),
    dict(id="c07-capacity-not-restored", fires={"C07": "C07.d", "C15": "C15.d"},
         edits=[(BUF + "file_buffered_collection.py", """        try:
            super().__exit__(exc_type, exc_val, exc_tb)
        finally:
            # The capacity must be restored even if the flush raises.
            original_buffer_capacity = self._original_buffer_capacitys.pop()
            if original_buffer_capacity is not None:
                self._cls.set_buffer_capacity(original_buffer_capacity)""", """        super().__exit__(exc_type, exc_val, exc_tb)
        original_buffer_capacity = self._original_buffer_capacitys.pop()
        if original_buffer_capacity is not None:
            self._cls.set_buffer_capacity(original_buffer_capacity)""")]),
    # ------------------------------------------------------------------ C08
    dict(id="c08-serialise-inside-open", fires={"C08": "C08.a"},
         edits=[(BK + "collection_json.py", """            with open(self._filename, "wb") as file:
                file.write(blob)""", """            with open(self._filename, "wb") as file:
                file.write(json.dumps(self, cls=SyncedCollectionJSONEncoder).encode())"""),
                (BK + "collection_json.py", """        blob = json.dumps(self, cls=SyncedCollectionJSONEncoder).encode()
        # When write_concern""", """        blob = None
        # When write_concern"""),
                (BK + "collection_json.py", """                tmpfile.write(blob)""", """                tmpfile.write(json.dumps(self, cls=SyncedCollectionJSONEncoder).encode())""")]),
    dict(id="c08-atomic-branch-writes-target", fires={"C08": "C08."},
         edits=[(BK + "collection_json.py", """            with open(fn_tmp, "wb") as tmpfile:
                tmpfile.write(blob)
            os.replace(fn_tmp, self._filename)""", """            with open(self._filename, "wb") as tmpfile:
                tmpfile.write(blob)""")]),
    dict(id="c08-temp-in-tmpdir", fires={"C08": "C08.b"},
         edits=[(BK + "collection_json.py", 'fn_tmp = os.path.join(dirname, f"._{uuid.uuid4()}_{filename}")', 'fn_tmp = os.path.join("/tmp", f"._{uuid.uuid4()}_{filename}")')]),
    dict(id="c08-second-writer", fires={"C08": "C08.d"},
         edits=[(BUF + "file_buffered_collection.py", """        try:
            metadata = os.stat(self._filename)""", """        try:
            if not os.path.exists(self._filename):
                open(self._filename, "a").close()
            metadata = os.stat(self._filename)""")]),
    dict(id="c08-mode-loses-threading", fires={"C08": "C08.c", "C09": "C09.c"},
         edits=[(BK + "collection_json.py", "if self._write_concern or type(self)._threading_support_is_active:", "if self._write_concern:")]),
    # ------------------------------------------------------------- C09 / C10
    dict(id="c09-release-between-load-and-save", fires={"C09": "C09.a"},
         edits=[(DT + "synced_collection.py", """        try:
            if self._load:
                self._collection._load()
        except BaseException as error:""", """        try:
            if self._load:
                self._collection._load()
            self._collection._thread_lock.__exit__(None, None, None)
            self._collection._thread_lock.__enter__()
        except BaseException as error:""")]),
    dict(id="c10-exit-without-finally", fires={"C10": "C10.a"},
         edits=[(DT + "synced_collection.py", """        try:
            self._collection._save()
        finally:
            self._collection._thread_lock.__exit__(exc_type, exc_val, exc_tb)""", """        self._collection._save()
        self._collection._thread_lock.__exit__(exc_type, exc_val, exc_tb)""")]),
    dict(id="c10-enter-leaks-again", fires={"C10": "C10.a"},
         edits=[(DT + "synced_collection.py", """        try:
            if self._load:
                self._collection._load()
        except BaseException as error:
            # __exit__ is not called when __enter__ raises, so the lock must be
            # released here or it would stay held forever.
            self._collection._thread_lock.__exit__(
                type(error), error, error.__traceback__
            )
            raise""", """        if self._load:
            self._collection._load()""")]),
    dict(id="c10-new-lock-order-edge", fires={"C10": "C10.c"},
         edits=[(DT + "synced_dict.py", """    def popitem(self):  # noqa: D102
        with self._load_and_save:""", """    def popitem(self):  # noqa: D102
        with self._thread_lock, self._load_and_save:""")]),
    dict(id="c10-lock-table-shrinks", fires={"C10": "C10.d"},
         edits=[(BK + "collection_json.py", """    @property
    def _lock_id(self):
        return self._filename""", """    def __del__(self):
        type(self)._locks.pop(self._lock_id, None)

    @property
    def _lock_id(self):
        return self._filename""")]),
    # ------------------------------------------------------------------ C11
    dict(id="c11-append-validates-after-store", fires={"C11": "C11.a"},
         edits=[(DT + "synced_list.py", """    def append(self, item):  # noqa: D102
        self._validate(item)
        with self._load_and_save, self._suspend_sync:
            self._data.append(self._from_base(data=item, parent=self))""", """    def append(self, item):  # noqa: D102
        with self._load_and_save, self._suspend_sync:
            self._data.append(self._from_base(data=item, parent=self))
        self._validate(item)""")]),
    dict(id="c11-family-member-without-validators", fires={"C11": "C11.d"},
         edits=[(BK + "collection_json.py", """    _backend = __name__ + ".buffered_attr"  # type: ignore
    # Dict-like children""", """    _backend = __name__ + ".buffered_attr"  # type: ignore
    _all_validators = ()
    # Dict-like children""")]),
    dict(id="c11-validator-stops-descending", fires={"C11": "C11.d"},
         edits=[("validators.py", """            if not isinstance(key, str):
                raise KeyTypeError(f"Keys must be str, not {type(key).__name__}")
            json_format_validator(value)""", """            if not isinstance(key, str):
                raise KeyTypeError(f"Keys must be str, not {type(key).__name__}")""")]),
    dict(id="c11-dead-tag", fires={"C11": "C11.b"},
         edits=[("validators.py", """    elif switch_type == "SEQUENCE":
        for value in data:
            no_dot_in_key(value)""", """    elif switch_type == "NON_STR_SEQUENCE":
        for value in data:
            no_dot_in_key(value)""")]),
    # ------------------------------------------------------------------ C12
    dict(id="c12-float-dropped-from-base", fires={"C12": "C12.a"},
         edits=[("validators.py", '"BASE": lambda obj: isinstance(obj, (str, int, float, bool, type(None))),', '"BASE": lambda obj: isinstance(obj, (str, int, bool, type(None))),')]),
    dict(id="c12-parse-float-hook", fires={"C12": "C12.c"},
         edits=[(BK + "collection_json.py", "return json.loads(blob)", "return json.loads(blob, parse_float=str)")]),
    dict(id="c12-tuple-not-a-sequence-for-lists", fires={"C12": "C12.b"},
         edits=[(DT + "synced_list.py", "lambda obj: (isinstance(obj, Sequence) and not isinstance(obj, str))", "lambda obj: (isinstance(obj, tuple) and not isinstance(obj, str))")]),
    # ------------------------------------------------------------- C13 / C15

    dict(id="c15-size-update-outside-branch", fires={"C15": "C15.a"},
         edits=[(BUF + "memory_buffered_collection.py", """                    type(self)._buffer[self._filename]["modified"] = True
                    type(self)._CURRENT_BUFFER_SIZE += 1""", """                    type(self)._buffer[self._filename]["modified"] = True
                type(self)._CURRENT_BUFFER_SIZE += 1""")]),
    dict(id="c15-entry-replaced-without-delta", fires={"C15": "C15.a"},
         edits=[(BUF + "serialized_file_buffered_collection.py", "                type(self)._CURRENT_BUFFER_SIZE += buffer_size_change\n", "                pass\n")]),
    dict(id="c15-capacity-test-dropped", fires={"C15": "C15.b"},
         edits=[(BUF + "memory_buffered_collection.py", """            if type(self)._CURRENT_BUFFER_SIZE > type(self)._BUFFER_CAPACITY:
                type(self)._flush_buffer(force=True)""", """            pass""")]),
    # ------------------------------------------------------------------ C14
    dict(id="c14-new-unlocked-reader-mutation", fires={"C14": "C14.a"},
         edits=[(DT + "synced_dict.py", """    def get(self, key, default=None):  # noqa: D102
        self._load()
        return self._data.get(key, default)""", """    def get(self, key, default=None):  # noqa: D102
        self._load()
        if key not in self._data:
            self._data[key] = default
        return self._data.get(key, default)""")]),
    # ------------------------------------------------------------------ C16
    dict(id="c16-setitem-stores-raw", fires={"C16": "C16.a"},
         edits=[(DT + "synced_dict.py", "            self._data[key] = self._from_base(value, parent=self)\n\n    def reset", "            self._data[key] = value\n\n    def reset")]),
    dict(id="c16-call-returns-data", fires={"C16": "C16.c"},
         edits=[(DT + "synced_collection.py", """        self._load()
        return self._to_base()""", """        self._load()
        return self._data""")]),
    dict(id="c16-values-returns-view", fires={"C16": "C16.c"},
         edits=[(DT + "synced_dict.py", "return self._to_base().values()", "return self._data.values()")]),
    # ------------------------------------------------------------------ C17
    dict(id="c17-len-saves", fires={"C17": "C17."},
         edits=[(DT + "synced_collection.py", """    def __len__(self):
        self._load()""", """    def __len__(self):
        with self._load_and_save:
            pass""")]),
    dict(id="c17-load-saves-after-merge", fires={"C17": "C17."},
         edits=[(DT + "synced_collection.py", """                with self._suspend_sync:
                    self._update(data)
            else:
                self._root._load()""", """                with self._suspend_sync:
                    self._update(data)
                self._save_to_resource()
            else:
                self._root._load()""")]),
    dict(id="c17-flush-writes-unmodified", fires={"C17": "C17.", "C07": "C07.a"},
         edits=[(BUF + "memory_buffered_collection.py", """                    if cached_data["modified"]:
                        if cached_data["metadata"] != self._get_file_metadata():""", """                    if True:
                        if cached_data["metadata"] != self._get_file_metadata():""")]),
    # ------------------------------------------------------------------ C18
    dict(id="c18-unprotected-attribute", fires={"C18": "C18.c"},
         edits=[(DT + "synced_collection.py", """            self._root = None
            self._suspend_sync = _CounterContext()""", """            self._root = None
            self._cache = {}
            self._suspend_sync = _CounterContext()""")]),
    dict(id="c18-attr-list-without-backend", fires={"C18": "C18.a"},
         edits=[(BK + "collection_json.py", """    \"\"\"A :class:`JSONList` whose dict-like children will be of type :class:`JSONAttrDict`.\"\"\"

    _backend = __name__ + ".attr"  # type: ignore""", """    \"\"\"A :class:`JSONList` whose dict-like children will be of type :class:`JSONAttrDict`.\"\"\"
""")]),
    dict(id="c18-from-base-without-parent", fires={"C18": "C18.b"},
         edits=[(DT + "synced_list.py", "            self._data.append(self._from_base(data=item, parent=self))", "            self._data.append(self._from_base(data=item))")]),
    # ------------------------------------------------------------------ C19
    dict(id="c19-predicate-reads-len", fires={"C19": "C19.a"},
         edits=[(DT + "synced_dict.py", '"MAPPING": lambda obj: isinstance(obj, Mapping),', '"MAPPING": lambda obj: isinstance(obj, Mapping) and len(obj) >= 0,')]),
    dict(id="c19-blocklist-exact-again", fires={"C19": "C19.a"},
         edits=[("utils.py", """and not issubclass(
                obj_type, tuple(self.cache_blocklist)
            ):""", """and obj_type not in self.cache_blocklist:""")]),
    dict(id="c14-get-check-then-read", fires={"C14": "C14.e"},
         edits=[(DT + "synced_dict.py", """        self._load()
        return self._data.get(key, default)""", """        if key in self:
            return self[key]
        return default""")]),
    dict(id="c14-index-one-load-per-element", fires={"C14": "C14.e"},
         edits=[(DT + "synced_list.py", """    def index(self, value, start=0, stop=None):  # noqa: D102""", """    def _index_unused(self, value, start=0, stop=None):  # noqa: D102""")]),
    dict(id="c02-redis-loader-remembers-blob", fires={"C02": "C02.f"},
         edits=[(BK + "collection_redis.py", """        blob = self._client.get(self._key)
""", """        blob = self._client.get(self._key)
        if blob is not None and blob == getattr(self, "_seen", None):
            return None
        self._seen = blob
""")]),
    dict(id="c02-first-buffered-load-falsy", fires={"C02": "C02.b"},
         edits=[(BUF + "file_buffered_collection.py", """                data = self._load_from_resource()
                with self._thread_lock, self._suspend_sync:
                    self._update(data)""", """                data = self._load_from_resource()
                if data:
                    with self._thread_lock, self._suspend_sync:
                        self._update(data)""")]),
    dict(id="c03-index-on-slice", fires={"C03": "C03.c"},
         edits=[(DT + "synced_list.py", """        if stop is None:
            return self._data.index(value, start)
        return self._data.index(value, start, stop)""", """        return start + self._data[start:stop].index(value)""")]),
    dict(id="c03-writer-sorts-keys", fires={"C03": "C03.e"},
         edits=[(BK + "collection_json.py", "json.dumps(self, cls=SyncedCollectionJSONEncoder)", "json.dumps(self, cls=SyncedCollectionJSONEncoder, sort_keys=True)")]),
    dict(id="c06-weak-registry", fires={"C06": "C06.d"},
         edits=[(BUF + "file_buffered_collection.py", "        cls._buffered_collections: Dict[int, BufferedCollection] = {}\n", "        cls._buffered_collections = weakref.WeakValueDictionary()\n"),
                (BUF + "file_buffered_collection.py", "import errno\n", "import errno\nimport weakref\n")]),
    dict(id="c09-append-converts-before-lock", fires={"C09": "C09.a"},
         edits=[(DT + "synced_list.py", """        self._validate(item)
        with self._load_and_save, self._suspend_sync:
            self._data.append(self._from_base(data=item, parent=self))""", """        self._validate(item)
        converted = self._from_base(data=item, parent=self)
        with self._load_and_save, self._suspend_sync:
            self._data.append(converted)""")]),
    dict(id="c05-no-flush-when-exception", fires={"C05": "C05.c"},
         edits=[("utils.py", """        super().__exit__(exc_type, exc_val, exc_tb)
        if not self:
            self._func()""", """        super().__exit__(exc_type, exc_val, exc_tb)
        if not self and exc_type is None:
            self._func()""")]),
    dict(id="c10-load-extends-through-public-extend", fires={"C10": "C10.c"},
         edits=[(DT + "synced_list.py", """                    self._data += [
                        self._from_base(data=value, parent=self) for value in new_data
                    ]""", """                    self.extend(new_data)""")]),
    dict(id="c10-load-takes-collection-lock", fires={"C10": "C10.c"},
         edits=[(DT + "synced_collection.py", """                data = self._load_from_resource()
                with self._suspend_sync:
                    self._update(data)""", """                with self._thread_lock:
                    data = self._load_from_resource()
                    with self._suspend_sync:
                        self._update(data)""")]),
    dict(id="c10-lock-created-after-unlocked-test", fires={"C10": "C10.e"},
         edits=[(DT + "synced_collection.py", """            with self._cls_lock:
                if self._lock_id not in self._locks:
                    self._locks[self._lock_id] = RLock()""", """            if self._lock_id not in self._locks:
                with self._cls_lock:
                    self._locks[self._lock_id] = RLock()""")]),
    dict(id="c11-validator-sees-only-exact-dict", fires={"C11": "C11.f"},
         edits=[("validators.py", """        "MAPPING": lambda obj: isinstance(obj, Mapping),
        "SEQUENCE": lambda obj: isinstance(obj, Sequence) and not isinstance(obj, str),
    }
)
""", """        "MAPPING": lambda obj: isinstance(obj, dict),
        "SEQUENCE": lambda obj: isinstance(obj, Sequence) and not isinstance(obj, str),
    }
)
""")]),
    dict(id="c09-extend-validates-only-when-not-suspended", fires={"C09": "C09.d"},
         edits=[(DT + "synced_list.py", """        iterable_data = list(iterable)
        self._validate(iterable_data)
        with self._load_and_save, self._suspend_sync:
            self._data.extend(""", """        iterable_data = list(iterable)
        if not self._suspend_sync:
            self._validate(iterable_data)
        with self._load_and_save, self._suspend_sync:
            self._data.extend(""")]),
    dict(id="c15-context-restores-capacity-directly", fires={"C15": "C15.b"},
         edits=[(BUF + "file_buffered_collection.py", "                self._cls.set_buffer_capacity(original_buffer_capacity)", "                self._cls._BUFFER_CAPACITY = original_buffer_capacity")]),
    dict(id="c16-to-base-falls-back-by-truthiness", fires={"C16": "C16.f"},
         edits=[(DT + "synced_dict.py", """            switch_type = _sc_resolver.get_type(value)
            if switch_type == "SYNCEDCOLLECTION":
                converted[key] = value._to_base()
            else:
                converted[key] = value""", """            nested = value._to_base() if _sc_resolver.get_type(value) == "SYNCEDCOLLECTION" else None
            converted[key] = nested or value""")]),
    dict(id="c10-buffer-lock-only-if-buffered", fires={"C10": "C10.g"},
         edits=[(BUF + "file_buffered_collection.py", """    def __enter__(self):
        self._collection._buffer_lock.__enter__()
        try:""", """    def __enter__(self):
        if self._collection._is_buffered:
            self._collection._buffer_lock.__enter__()
        try:""")]),
    dict(id="c19-memoizes-lying-class", fires={"C19": "C19.e"},
         edits=[("utils.py", """            if getattr(obj, "__class__", obj_type) is obj_type and not issubclass(
                obj_type, tuple(self.cache_blocklist)
            ):""", """            if not issubclass(obj_type, tuple(self.cache_blocklist)):""")]),
    dict(id="c19-memo-keyed-by-id", fires={"C19": "C19.b"},
         edits=[("utils.py", "        obj_type = type(obj)\n", "        obj_type = id(obj)\n")]),
    dict(id="c07-metadata-of-the-link", fires={"C07": "C07.h"},
         edits=[(BUF + "file_buffered_collection.py", "os.stat(self._filename)", "os.lstat(self._filename)")]),
    dict(id="c04-context-load-flag-switched", fires={"C04": "C04.d"},
         edits=[(DT + "synced_collection.py", """        try:
            self._collection._save()
        finally:""", """        try:
            self._collection._save()
            self._load = True
        finally:""")]),
    dict(id="c15-enter-raises-after-increment", fires={"C15": "C15.d", "C07": "C07.d"},
         edits=[(BUF + "file_buffered_collection.py", """            self.__exit__(type(error), error, error.__traceback__)
            raise""", """            raise""")]),
    dict(id="c15-capacity-truthiness", fires={"C15": "C15.g"},
         edits=[(BUF + "file_buffered_collection.py", """            if original_buffer_capacity is not None:""", """            if original_buffer_capacity:""")]),
    dict(id="c10-lock-installed-unconditionally", fires={"C10": "C10.e"},
         edits=[(BK + "collection_json.py", """                    if self._lock_id not in type(self)._locks:
                        type(self)._locks[self._lock_id] = RLock()

    @property""", """                    type(self)._locks[self._lock_id] = RLock()

    @property""")]),
    dict(id="c02-empty-file-like-missing", fires={"C02": "C02.h"},
         edits=[(BK + "collection_json.py", """                blob = file.read()
""", """                blob = file.read()
                if not blob:
                    return None
""")]),
    dict(id="c06-flush-repoints-entry", fires={"C06": "C06.h"},
         edits=[(BUF + "memory_buffered_collection.py", """            self._update(data, _validate=True)
""", """            self._update(data, _validate=True)
            if self._filename in type(self)._buffer:
                type(self)._buffer[self._filename]["contents"] = self._data
""")]),
    dict(id="c01-writer-swallows-replace-error", fires={"C01": "C01.f"},
         edits=[(BK + "collection_json.py", """            os.replace(fn_tmp, self._filename)
""", """            try:
                os.replace(fn_tmp, self._filename)
            except OSError:
                os.remove(fn_tmp)
""")]),
]

SILENT = [
    dict(id="s-flush-loop-emptiness-test", props=["C06", "C07", "C13", "C10"],
         edits=[(BUF + "file_buffered_collection.py", """                try:
                    (
                        col_id,
                        collection,
                    ) = cls._buffered_collections.popitem()
                except KeyError:
                    break
""", """                if not cls._buffered_collections:
                    break
                col_id, collection = cls._buffered_collections.popitem()
""")]),
    # The next two were firing variants of the first corpus; after the fixes K6 (_save_to_buffer stores the saver's
    # container) and K3 (root clear/reset hold the buffer lock like every other write) they are behaviour preserving.
    dict(id="s-clear-rebinds-then-saves", props=["C05", "C06", "C01", "C16"],
         edits=[(DT + "synced_dict.py", """            with self._save_only:
                self._data.clear()""", """            with self._save_only:
                self._data = {}""")]),
    dict(id="s-registration-before-inner-lock", props=["C13", "C14", "C06", "C05"],
         edits=[(BUF + "memory_buffered_collection.py", """        with self._buffer_lock:
            type(self)._buffered_collections[id(self)] = self

            if self._filename in type(self)._buffer:""", """        type(self)._buffered_collections[id(self)] = self
        with self._buffer_lock:
            if self._filename in type(self)._buffer:""")]),
    dict(id="s-comments-and-blank-lines", props="*",
         edits=[(DT + "synced_dict.py", "    def keys(self):  # noqa: D102\n", "    # a comment\n\n    def keys(self):  # noqa: D102\n        # load first\n"),
                (BUF + "file_buffered_collection.py", "        issues = {}\n", "        issues = {}  # per-file errors\n\n")]),
    dict(id="s-explicit-enter-exit", props=["C01", "C04", "C09", "C10", "C17", "C02"],
         edits=[(DT + "synced_dict.py", """    def popitem(self):  # noqa: D102
        with self._load_and_save:
            ret = self._data.popitem()
        return ret""", """    def popitem(self):  # noqa: D102
        cm = self._load_and_save
        cm.__enter__()
        try:
            ret = self._data.popitem()
        except BaseException as e:
            cm.__exit__(type(e), e, e.__traceback__)
            raise
        cm.__exit__(None, None, None)
        return ret""")]),
    dict(id="s-helper-method-split", props=["C01", "C04", "C09", "C10", "C11", "C16", "C18", "C03"],
         edits=[(DT + "synced_list.py", """    def append(self, item):  # noqa: D102
        self._validate(item)
        with self._load_and_save, self._suspend_sync:
            self._data.append(self._from_base(data=item, parent=self))""", """    def _locked_append(self, item):
        with self._load_and_save, self._suspend_sync:
            self._data.append(self._from_base(data=item, parent=self))

    def append(self, item):  # noqa: D102
        self._validate(item)
        self._locked_append(item)""")]),
    dict(id="s-with-moved-into-decorator", props=["C01", "C04", "C09", "C10", "C17", "C11"],
         edits=[(DT + "synced_dict.py", """class SyncedDict(SyncedCollection, MutableMapping):""", """def _synchronized(method):
    def wrapper(self, *args, **kwargs):
        with self._load_and_save:
            return method(self, *args, **kwargs)

    return wrapper


class SyncedDict(SyncedCollection, MutableMapping):"""),
                (DT + "synced_dict.py", """    def popitem(self):  # noqa: D102
        with self._load_and_save:
            ret = self._data.popitem()
        return ret""", """    @_synchronized
    def popitem(self):  # noqa: D102
        return self._data.popitem()""")]),
    dict(id="s-early-return-instead-of-else", props=["C01", "C02", "C04", "C17", "C09", "C10"],
         edits=[(DT + "synced_collection.py", """        if not self._suspend_sync:
            if self._root is None:
                self._save_to_resource()
            else:
                self._root._save()""", """        if self._suspend_sync:
            return
        if self._root is not None:
            self._root._save()
            return
        self._save_to_resource()""")]),
    dict(id="s-mirrored-comparison", props=["C03"],
         edits=[(DT + "synced_list.py", """            return self() <= other()
        else:
            return self() <= other""", """            return other() >= self()
        else:
            return other >= self()""")]),
    dict(id="s-hoist-type-self", props=["C05", "C06", "C07", "C13", "C15", "C17", "C14"],
         edits=[(BUF + "memory_buffered_collection.py", """        with self._buffer_lock:
            type(self)._buffered_collections[id(self)] = self

            if self._filename in type(self)._buffer:""", """        cls = type(self)
        with self._buffer_lock:
            cls._buffered_collections[id(self)] = self

            if self._filename in cls._buffer:""")]),
    dict(id="s-new-readonly-method", props=["C02", "C17", "C14", "C16", "C10"],
         edits=[(DT + "synced_dict.py", """    def get(self, key, default=None):  # noqa: D102""", """    def first_key(self):
        \"\"\"Return some key or None.\"\"\"
        self._load()
        for k in self._data:
            return k
        return None

    def get(self, key, default=None):  # noqa: D102""")]),
    dict(id="s-rename-locals", props=["C05", "C06", "C07", "C15", "C17"],
         edits=[(BUF + "serialized_file_buffered_collection.py", """                        del type(self)._buffer[self._filename]
                        data_size = len(cached_data["contents"])
                        type(self)._CURRENT_BUFFER_SIZE -= data_size""", """                        del type(self)._buffer[self._filename]
                        nbytes = len(cached_data["contents"])
                        type(self)._CURRENT_BUFFER_SIZE -= nbytes""")]),
    dict(id="s-reorder-validator-branches", props=["C11", "C12", "C19"],
         edits=[("validators.py", """    if switch_type == "MAPPING":
        for key, value in data.items():
            if isinstance(key, str):
                if "." in key:""", """    if switch_type is None:
        return
    if switch_type == "MAPPING":
        for key, value in data.items():
            if isinstance(key, str):
                if "." in key:""")]),
    dict(id="s-new-family-following-protocols", props=["C18", "C11", "C12", "C01", "C17"],
         edits=[(BK + "collection_json.py", "\nclass JSONAttrDict(JSONDict, AttrDict):", """
class LoggedJSONDict(JSONDict):
    \"\"\"A JSONDict family of its own.\"\"\"

    _backend = __name__ + ".logged"  # type: ignore


class LoggedJSONList(JSONList):
    \"\"\"List member of the logged family.\"\"\"

    _backend = __name__ + ".logged"  # type: ignore


class JSONAttrDict(JSONDict, AttrDict):""")]),
]
