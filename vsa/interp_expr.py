"""Expression / call evaluation for the inlining interpreter."""
import ast

from . import AnalysisError
from .graph import Val, show
from .model import ABC_MOD, BoundCM, ClassInfo, DefaultDictVal, ExtClass, FuncInfo, Inst, Method, Opaque, Prop, Unevaluable

MUTATING = {
    "append", "extend", "insert", "remove", "pop", "popitem", "clear", "update", "setdefault",
    "sort", "reverse", "__setitem__", "__delitem__", "__iadd__", "add", "discard",
}
PURE_METHODS = {
    "items", "keys", "values", "encode", "decode", "hexdigest", "startswith", "endswith", "format",
    "get", "split", "join", "copy", "lower", "upper", "strip", "digest",
}
DICT_ONLY = {"items", "keys", "values", "get", "popitem", "setdefault", "update"}
LIST_ONLY = {"append", "extend", "insert", "sort", "reverse", "index", "count", "remove"}
PURE_BUILTINS = {
    "isinstance", "issubclass", "id", "hasattr", "callable", "range", "print", "hash", "min", "max",
    "abs", "int", "float", "frozenset", "object", "property", "enumerate", "zip", "divmod",
}
CONTAINER_BUILTINS = {"len", "iter", "reversed", "repr", "str", "bool", "list", "tuple", "dict", "sorted", "sum", "any", "all", "set", "next"}
CMP_DUNDER = {"Eq": "__eq__", "NotEq": "__ne__", "Lt": "__lt__", "LtE": "__le__", "Gt": "__gt__", "GtE": "__ge__"}
CMP_REFLECT = {"__eq__": "__eq__", "__ne__": "__ne__", "__lt__": "__gt__", "__le__": "__ge__", "__gt__": "__lt__", "__ge__": "__le__"}
CMP_SYM = {"Eq": "==", "NotEq": "!=", "Lt": "<", "LtE": "<=", "Gt": ">", "GtE": ">=", "Is": "is", "IsNot": "is not", "In": "in", "NotIn": "not in"}

NONE = Val("const", None)


def derives(val, kind):
    """First sub-value of the given kind inside val (structural origin)."""
    if not isinstance(val, Val):
        return None
    for v in val.walk():
        if v.kind == kind:
            return v
    return None


def data_origin(val):
    """The data value an expression is structurally an element / view of."""
    v = val
    for _ in range(12):
        if not isinstance(v, Val):
            return None
        if v.kind == "data":
            return v
        if v.kind in ("sub", "elem"):
            v = v.args[0]
        elif v.kind == "call" and v.args[1] is not None and v.args[0] in ("items", "values", "get", "pop", "popitem", "setdefault", "__getitem__", "iter", "reversed"):
            v = v.args[1]
        elif v.kind == "call" and v.args[0] in ("iter", "reversed", "list", "next") and v.args[2]:
            v = v.args[2][0]
        elif v.kind == "phi":
            for x in v.args:
                d = data_origin(x)
                if d is not None:
                    return d
            return None
        else:
            return None
    return None


def cattr_origin(val):
    v = val
    for _ in range(12):
        if not isinstance(v, Val):
            return None
        if v.kind == "cattr":
            return v
        if v.kind in ("sub", "elem"):
            v = v.args[0]
        elif v.kind == "call" and v.args[1] is not None:
            v = v.args[1]
        elif v.kind == "phi":
            for x in v.args:
                d = cattr_origin(x)
                if d is not None:
                    return d
            return None
        else:
            return None
    return None


class ExprMixin:
    # ---------------------------------------------------------------- lift
    def lift(self, v, owner_cls=None, name=None):
        """Def-time python value -> symbolic value."""
        if isinstance(v, Val):
            return v
        if isinstance(v, FuncInfo):
            return Val("func", v)
        if isinstance(v, ClassInfo) or isinstance(v, ExtClass):
            return Val("classref", v)
        if isinstance(v, Opaque):
            if v.kind == "RLock":
                return Val("lock", name or "lock", Val("const", owner_cls.name if owner_cls else None))
            if v.kind.startswith("ext:"):
                return Val("ext", v.kind[4:])
            return Val("unknown", v.kind)
        if isinstance(v, Inst):
            return self.obj_from_inst(v, owner_cls, name)
        if isinstance(v, BoundCM):
            return Val("bound", Val("cls", (v.cls,)), v.func)
        if isinstance(v, Method):
            return Val("func", v.func)
        if isinstance(v, (tuple, list)) and any(isinstance(x, (FuncInfo, ClassInfo)) for x in v):
            return Val("tuple", *[self.lift(x) for x in v])
        if isinstance(v, (str, int, float, bool, type(None), bytes, tuple, frozenset)):
            return Val("const", v)
        if isinstance(v, list):
            return Val("const", tuple(v)) if all(isinstance(x, (str, int, float, bool, type(None))) for x in v) else Val("unknown", "list")
        if isinstance(v, type):
            return Val("ext", "builtins." + v.__name__)
        return Val("unknown", type(v).__name__)

    def obj_from_inst(self, inst, owner_cls, name):
        """A def-time helper instance (``cls._buffer_context``)."""
        oid = ("C", name) if name else ("I", inst.cls.name)
        return self.construct_obj(inst.cls, oid, [self.lift(a) for a in inst.args], {k: self.lift(x) for k, x in inst.kwargs.items()}, silent=True)

    def construct_obj(self, cls, oid, args, kwargs, silent=False, preds=None):
        """Instantiate a helper (non-collection) class: allocate the abstract
        object and run ``__init__`` to record its fields."""
        ov = Val("obj", cls, oid)
        if oid in self.objfields and silent:
            return ov
        first = oid not in self.objfields
        self.objfields.setdefault(oid, {})
        owner, init = self.model.lookup(cls, "__init__")
        if isinstance(init, Method):
            if silent:
                saved = (self.exc_stack, self.cur_stmt)
                scratch = self.g.add("scratch", {}, ("<scratch>", 0), "<scratch>", (), "")
                sj = self.g.add("scratch", {}, ("<scratch>", 0), "<scratch>", (), "")
                self.exc_stack = [sj.id]
                savedf = self.frames
                self.frames = []
                savedc = dict(self.counts)
                try:
                    self.inline(init.func, ov, args, kwargs, {scratch.id})
                finally:
                    self.frames = savedf
                    self.exc_stack, self.cur_stmt = saved
                    self.counts = savedc
                return ov
            out, _ = self.inline(init.func, ov, args, kwargs, preds)
            return ov, out
        if silent:
            return ov
        return ov, preds

    # --------------------------------------------------------------- names
    def lookup_name(self, name):
        fr = self.fr
        if name in fr.env:
            return fr.env[name]
        cl = getattr(fr, "closure", None)
        if cl and name in cl:
            return cl[name]
        # closures: a free variable of a nested def is looked up in the (still active) lexically enclosing frames
        f = fr.func.parent
        while f is not None:
            for outer in reversed(self.frames[:-1]):
                if outer.func is f:
                    if name in outer.env:
                        return outer.env[name]
                    ocl = getattr(outer, "closure", None)
                    if ocl and name in ocl:
                        return ocl[name]
                    break
            f = f.parent
        mod = fr.func.module
        r = self.model.resolve(mod, name)
        if r is not None:
            k = r[0]
            if k == "func":
                return Val("func", r[1])
            if k == "class":
                return Val("classref", r[1])
            if k == "const":
                return Val("const", r[1])
            if k == "ext":
                return Val("ext", r[1])
            if k == "mod":
                return Val("ext", r[1].name)
            if k == "var":
                try:
                    v = self.model.consteval(r[1], r[2])
                except Unevaluable:
                    return Val("global", r[1].name, name)
                if isinstance(v, Inst):
                    return Val("global", r[1].name, name)
                if isinstance(v, (dict,)):
                    return Val("global", r[1].name, name)
                return self.lift(v)
        if name in ("None", "True", "False"):
            return Val("const", {"None": None, "True": True, "False": False}[name])
        return Val("ext", "builtins." + name)

    # --------------------------------------------------------------- truth
    def truth(self, v):
        if not isinstance(v, Val):
            return None
        k = v.kind
        if k == "const":
            return bool(v.args[0])
        if k == "not":
            t = self.truth(v.args[0])
            return None if t is None else (not t)
        if k == "obj":
            oid = v.args[1]
            if self.is_counter(v):
                c = self.get_count(self.count_key(oid))
                if isinstance(c, tuple):
                    return True if c[1] > 0 else None
                return None if c is None else c > 0
            owner, b = self.model.lookup(v.args[0], "__bool__")
            owner2, l = self.model.lookup(v.args[0], "__len__")
            if b is None and l is None:
                return True
            return None
        if k in ("func", "classref", "bound", "lock", "cls", "ext"):
            return True
        if k == "tuple":
            return len(v.args) > 0
        if k in ("list", "set", "dict"):
            # a local container may have been filled in place since its display
            return True if v.args else None
        if k == "boolop":
            ts = [self.truth(x) for x in v.args[1:]]
            if v.args[0] == "or":
                if any(t is True for t in ts):
                    return True
                if all(t is False for t in ts):
                    return False
                return None
            if any(t is False for t in ts):
                return False
            if all(t is True for t in ts):
                return True
            return None
        if k == "phi":
            ts = {self.truth(x) for x in v.args}
            return ts.pop() if len(ts) == 1 else None
        if k == "field":
            f = self.field_fact(v)
            if f is not None:
                return self.truth(f)
            return None
        if k == "cmp":
            op, a, b = v.args
            if op in ("is", "is not"):
                na, nb = self.noneness(a), self.noneness(b)
                if b == NONE and na is not None:
                    return na if op == "is" else not na
                if a == NONE and nb is not None:
                    return nb if op == "is" else not nb
                return None
            ca, cb = self.concrete(a), self.concrete(b)
            if ca is not _NOVAL and cb is not _NOVAL:
                try:
                    return {
                        "==": ca == cb, "!=": ca != cb, "<": ca < cb, "<=": ca <= cb, ">": ca > cb, ">=": ca >= cb,
                        "in": ca in cb, "not in": ca not in cb,
                    }[op]
                except Exception:
                    return None
            return None
        if k == "call" and isinstance(v.args[0], str) and v.args[0].startswith("new:"):
            return True
        return None

    def concrete(self, v):
        if v.kind == "const":
            return v.args[0]
        if v.kind == "count":
            c = self.get_count(self.count_key(v.args[0]))
            return _NOVAL if (c is None or isinstance(c, tuple)) else c
        return _NOVAL

    def noneness(self, v):
        """True: is None; False: is not None; None: unknown."""
        if v.kind == "const":
            return v.args[0] is None
        if v.kind in ("inst", "obj", "cls", "func", "classref", "bound", "lock", "data", "tuple", "list", "dict", "fmt", "comp", "lambda", "exitstack"):
            return False
        if v.kind == "field":
            f = self.field_fact(v)
            if f is not None:
                return self.noneness(f)
        if v.kind == "call" and v.args[0] in ("popitem", "items", "keys", "values", "copy", "encode", "decode", "hexdigest") and v.args[1] is not None:
            return False  # these container / string methods never return None
        if v.kind == "unknown" and v.args and v.args[0] == "exc":
            return False  # type / value / traceback of the exception being propagated
        if v.kind == "phi":
            ts = {self.noneness(x) for x in v.args}
            return ts.pop() if len(ts) == 1 else None
        return None

    def field_fact(self, v):
        owner, name = v.args
        if name == "_write_concern" and self.ctx.wc is not None and owner.kind == "inst":
            return Val("const", self.ctx.wc)
        return None

    def is_counter(self, objval):
        return "_count" in self.objfields.get(objval.args[1], {})

    def count_key(self, oid):
        return oid

    def get_count(self, key):
        """Abstract value of a counter.  The counters of a collection passed in
        as an argument (tree 'P:<param>') are 0 at a public entry point: that
        collection is not inside one of its own operations."""
        if key not in self.counts:
            d = self.param_tree_default(key)
            if d is not None:
                self.counts[key] = d
        return self.counts.get(key)

    def param_tree_default(self, key):
        if isinstance(key, tuple) and len(key) == 2 and str(key[0]).startswith("P:"):
            if key[1] == "_suspend_sync":
                return 0
            if key[1] == "buffered":
                # the other operand is taken to be in the same buffering state as the receiver
                return 1 if self.ctx.mu == "obj" else 0
        return None

    # ---------------------------------------------------------- attributes
    def inst_tree_root(self, inst):
        classes, rho, tree = inst.args
        if rho == "root":
            return inst
        if tree == "T" and self.ctx.rho == "root" and any(c in self.model.bucket_classes(self.ctx.cls) for c in classes):
            return Val("inst", (self.ctx.cls,), "root", "T")
        rc = []
        for c in classes:
            for b in self.model.bucket_classes(c):
                if b not in rc:
                    rc.append(b)
        if not rc:
            rc = list(classes)
        return Val("inst", tuple(rc), "root", tree)

    def child_inst(self, owner):
        classes, rho, tree = owner.args
        rc = []
        for c in classes:
            for b in self.model.bucket_classes(c):
                if b not in rc:
                    rc.append(b)
        if not rc:
            rc = list(classes)
        return Val("inst", tuple(rc), "nested", tree)

    def as_inst(self, v):
        """Interpret a value as a collection instance if its origin says so."""
        if v.kind == "inst":
            return v
        d = data_origin(v)
        if d is not None and d.args[0].kind == "inst":
            return self.child_inst(d.args[0])
        c = cattr_origin(v)
        if c is not None and c.args[1] in self.model_holds_self():
            cv = c.args[0]
            if cv.kind == "cls":
                return Val("inst", cv.args[0], "root", "O")
        return None

    def model_holds_self(self):
        m = self.model
        if not hasattr(m, "_holds_self"):
            names = set()
            for f in m.functions:
                for n in ast.walk(f.node):
                    if isinstance(n, ast.Assign) and isinstance(n.value, ast.Name) and n.value.id == "self":
                        for t in n.targets:
                            if isinstance(t, ast.Subscript) and isinstance(t.value, ast.Attribute):
                                names.add(t.value.attr)
            m._holds_self = names
        return m._holds_self

    def mutable_cattrs(self):
        m = self.model
        if not hasattr(m, "_mutable_cattrs"):
            names = set()
            hooks = getattr(m, "hook_funcs", set())
            for f in m.functions:
                if f in hooks or f.module.name == ABC_MOD:
                    continue
                for n in ast.walk(f.node):
                    tg = []
                    if isinstance(n, ast.Assign):
                        tg = n.targets
                    elif isinstance(n, (ast.AugAssign, ast.AnnAssign)):
                        tg = [n.target]
                    for t in tg:
                        if isinstance(t, ast.Attribute) and _is_cls_expr(t.value):
                            names.add(t.attr)
            m._mutable_cattrs = names
        return m._mutable_cattrs

    def lock_tables(self):
        m = self.model
        if not hasattr(m, "_lock_tables"):
            names = set()
            for f in m.functions:
                for n in ast.walk(f.node):
                    if isinstance(n, ast.Assign) and isinstance(n.value, ast.Call):
                        d = ast.unparse(n.value.func)
                        if d.split(".")[-1] in ("RLock", "Lock"):
                            for t in n.targets:
                                if isinstance(t, ast.Subscript) and isinstance(t.value, ast.Attribute):
                                    names.add(t.value.attr)
            m._lock_tables = names
        return m._lock_tables

    def field_inits(self):
        """Instance-field initialisers read from the ``__init__`` methods of
        the collection classes: name -> [(class, func, rhs expr, tag)]."""
        m = self.model
        if hasattr(m, "_field_inits"):
            return m._field_inits
        inits = {}
        for c in m.class_order:
            if c.module.name == ABC_MOD or not c.is_subclass_of("SyncedCollection"):
                continue
            f0 = c.methods.get("__init__")
            if f0 is None:
                continue
            # the constructor and the private steps it is split into (self._step(...) called from __init__)
            ctor_funcs = [f0]
            for depth_ in range(2):
                for fx in list(ctor_funcs):
                    for n in ast.walk(fx.node):
                        if isinstance(n, ast.Call) and isinstance(n.func, ast.Attribute) and isinstance(n.func.value, ast.Name) and n.func.value.id == "self" and n.func.attr.startswith("_") and not n.func.attr.startswith("__"):
                            hv = m.lookup(c, n.func.attr)[1]
                            hf = getattr(hv, "func", None)
                            if hf is not None and hf not in ctor_funcs and hf.name not in ("_validate", "_from_base", "_load", "_save", "_update", "_register_validators"):
                                ctor_funcs.append(hf)
            for f in ctor_funcs:
                root_branches = {}
                for n in ast.walk(f.node):
                    if isinstance(n, ast.If):
                        for tag_body, other in ((n.body, n.orelse), (n.orelse, n.body)):
                            for s in tag_body:
                                if (
                                    isinstance(s, ast.Assign)
                                    and isinstance(s.value, ast.Constant)
                                    and s.value.value is None
                                    and any(isinstance(t, ast.Attribute) and t.attr == "_root" for t in s.targets)
                                ):
                                    for x in tag_body:
                                        root_branches[id(x)] = "root"
                                    for x in other:
                                        root_branches[id(x)] = "nested"
                for n in ast.walk(f.node):
                    if isinstance(n, ast.Assign):
                        for t in n.targets:
                            if isinstance(t, ast.Attribute) and isinstance(t.value, ast.Name) and t.value.id == "self":
                                inits.setdefault(t.attr, []).append((c, f, n.value, root_branches.get(id(n))))
        m._field_inits = inits
        if "_root" not in inits or not any(tag == "root" for (_, _, _, tag) in inits.get("_suspend_sync", [])):
            raise AnalysisError("anchor: SyncedCollection.__init__ no longer has the root / nested initialisation branches (self._root = None ...)")
        return inits

    def inst_field(self, inst, name):
        """Value of an instance field of a collection object, from the
        initialisers in the constructors (DESIGN 1.4)."""
        classes, rho, tree = inst.args
        if name == "_root":
            if rho == "root":
                return NONE
            if rho == "nested":
                return self.inst_tree_root(inst)
            return Val("phi", NONE, self.inst_tree_root(inst))
        inits = self.field_inits().get(name)
        if not inits:
            return None
        mro = classes[0].mro
        cands = [e for e in inits if e[0] in mro]
        if not cands:
            return None
        tagged = [e for e in cands if e[3] == "root"]
        if tagged:
            holder = self.inst_tree_root(inst)
            e = tagged[0]
            oid = (tree, name)
        else:
            e = cands[0]
            if not isinstance(e[2], ast.Call):
                return None
            holder = inst
            oid = (tree, name) if rho == "root" else (show(inst), name)
        ck = ("fieldinit", oid, tuple(c.name for c in holder.args[0]))
        cache = self.__dict__.setdefault("_fi_cache", {})
        if ck in cache:
            return cache[ck]
        c, f, rhs, tag = e
        v = self.eval_detached(f, {"self": holder}, rhs, oid)
        cache[ck] = v
        return v

    def eval_detached(self, func, env, expr, oid):
        from .interp import Frame

        saved = (self.exc_stack, self.cur_stmt, self.frames, dict(self.counts))
        scratch = self.g.add("scratch", {}, ("<scratch>", 0), "<scratch>", (), "")
        sj = self.g.add("scratch", {}, ("<scratch>", 0), "<scratch>", (), "")
        self.exc_stack = [sj.id]
        fr = Frame(func, env.get("self"), func.cls)
        fr.env = dict(env)
        # constructor arguments are per-instance values: symbolic fields of the instance (so that a record built from
        # them, e.g. a (group, name) location tuple, still addresses THIS object's resource)
        if env.get("self") is not None:
            for a_ in func.node.args.args[1:] + func.node.args.kwonlyargs:
                fr.env.setdefault(a_.arg, Val("field", env["self"], "ctor:" + a_.arg))
        fr.ret_join = sj.id
        self.frames = [fr]
        self._force_oid = oid
        try:
            self._bind_single_assigned_locals(func, fr, expr, {scratch.id}, 0)
            v, _ = self.ev(expr, {scratch.id})
        finally:
            self._force_oid = None
            self.exc_stack, self.cur_stmt, self.frames, self.counts = saved
        return v

    def _bind_single_assigned_locals(self, func, fr, expr, preds, depth):
        """Names the initialiser reads that are plain locals of the constructor assigned exactly once
        (`cls = type(self)` hoisted out of the expression) are evaluated from their defining expression."""
        if depth > 4:
            return
        params = {a.arg for a in func.node.args.args + func.node.args.kwonlyargs + func.node.args.posonlyargs}
        for n in ast.walk(expr):
            if not (isinstance(n, ast.Name) and isinstance(n.ctx, ast.Load)) or n.id in fr.env or n.id in params:
                continue
            defs = []
            for st in ast.walk(func.node):
                if isinstance(st, ast.Assign):
                    for t in st.targets:
                        for x in ast.walk(t):
                            if isinstance(x, ast.Name) and x.id == n.id:
                                defs.append(st if (isinstance(t, ast.Name) and len(st.targets) == 1) else None)
                elif isinstance(st, (ast.AugAssign, ast.AnnAssign, ast.For, ast.With, ast.NamedExpr, ast.comprehension)):
                    tgt = getattr(st, "target", None)
                    for x in ast.walk(tgt) if tgt is not None else ():
                        if isinstance(x, ast.Name) and x.id == n.id:
                            defs.append(None)
                    if isinstance(st, ast.With):
                        for it in st.items:
                            for x in ast.walk(it.optional_vars) if it.optional_vars is not None else ():
                                if isinstance(x, ast.Name) and x.id == n.id:
                                    defs.append(None)
            if len(defs) == 1 and defs[0] is not None:
                self._bind_single_assigned_locals(func, fr, defs[0].value, preds, depth + 1)
                val, _ = self.ev(defs[0].value, preds)
                fr.env[n.id] = val

    def class_attr(self, clsval, name, preds, inst=None):
        """Attribute looked up on the class(es); returns (val, preds)."""
        classes = clsval.args[0]
        groups = {}
        for c in classes:
            owner, v = self.model.lookup(c, name)
            groups.setdefault(id(v) if not isinstance(v, (str, int, bool, type(None), tuple, frozenset)) else ("c", repr(v)), [v, owner, []])[2].append(c)
        vals = []
        outs = set()
        for v, owner, cs in groups.values():
            cv = Val("cls", tuple(cs))
            if owner is None:
                if inst is not None:
                    vals.append(Val("field", inst, name))
                elif name == "__name__":
                    vals.append(Val("const", cs[0].name))
                else:
                    vals.append(Val("unknown", f"{cs[0].name}.{name}"))
                outs |= set(preds)
                continue
            if isinstance(v, Prop):
                if inst is None:
                    vals.append(Val("unknown", "property-on-class"))
                    outs |= set(preds)
                    continue
                ninst = Val("inst", tuple(cs), inst.args[1], inst.args[2])
                o, rv = self.inline(v.fget, ninst, [], {}, preds)
                vals.append(rv)
                outs |= o
                continue
            if isinstance(v, Method):
                f = v.func
                if f.kind == "classmethod":
                    vals.append(Val("bound", cv, f))
                elif f.kind == "staticmethod" or inst is None:
                    vals.append(Val("func", f))
                else:
                    vals.append(Val("bound", Val("inst", tuple(cs), inst.args[1], inst.args[2]), f))
                outs |= set(preds)
                continue
            if isinstance(v, (list, tuple)) and all(isinstance(x, (FuncInfo, ClassInfo)) for x in v) and name not in self.mutable_cattrs():
                vals.append(Val("tuple", *[self.lift(x) for x in v]))
                outs |= set(preds)
                continue
            mutable = name in self.mutable_cattrs() or isinstance(v, (dict, list))
            if mutable and not isinstance(v, (Inst, Opaque)):
                o = self.node("cs_read", preds, name=name, op="read", cls=cv, target=Val("cattr", cv, name))
                vals.append(Val("cattr", cv, name))
                outs |= o
                continue
            if isinstance(v, Opaque) and v.kind == "RLock":
                vals.append(Val("lock", name, Val("const", cs[0].name)))
            elif isinstance(v, Inst):
                vals.append(self.construct_obj(v.cls, ("C", name), [self.lift(a) for a in v.args], {k: self.lift(x) for k, x in v.kwargs.items()}, silent=True))
            else:
                vals.append(self.lift(v, cs[0], name))
            outs |= set(preds)
        return self.merge_vals(vals), outs

    def ev_attr(self, base, name, preds):
        k = base.kind
        if k == "phi":
            vals, outs = [], set()
            for alt in base.args:
                if alt.kind == "const" and alt.args[0] is None:
                    continue
                v, o = self.ev_attr(alt, name, preds)
                vals.append(v)
                outs |= o
            if not vals:
                return Val("unknown", "attr-of-none"), preds
            return self.merge_vals(vals), outs
        if k == "inst":
            if name == "_data":
                return Val("data", base), preds
            if name == "__class__":
                return Val("cls", base.args[0]), preds
            fv = self.inst_field(base, name)
            if fv is not None:
                return fv, preds
            return self.class_attr(Val("cls", base.args[0]), name, preds, inst=base)
        if k == "cls":
            return self.class_attr(base, name, preds)
        if k == "classref":
            c = base.args[0]
            if isinstance(c, ClassInfo):
                return self.class_attr(Val("cls", (c,)), name, preds)
            return Val("ext", f"{c.name}.{name}"), preds
        if k == "obj":
            cls, oid = base.args
            if name == "_count" and "_count" in self.objfields.get(oid, {}):
                return Val("count", oid), preds
            f = self.objfields.get(oid, {})
            if name in f:
                return f[name], preds
            owner, v = self.model.lookup(cls, name)
            if isinstance(v, Method):
                return Val("bound", base, v.func), preds
            if isinstance(v, Prop):
                o, rv = self.inline(v.fget, base, [], {}, preds)
                return rv, o
            if owner is not None:
                return self.lift(v), preds
            return Val("field", base, name), preds
        if k == "super":
            return Val("superattr", base, name), preds
        if k == "ext":
            return Val("ext", f"{base.args[0]}.{name}"), preds
        if k == "bound" and name == "__func__":
            return Val("func", base.args[1]), preds
        ci = self.as_inst(base)
        if ci is not None and name in ("_data", "_root", "_filename"):
            return self.ev_attr(ci, name, preds)
        if k == "dict":
            for kk, vv in base.args:
                if kk == Val("const", name):
                    return vv, preds
        if name in self.record_field_names() and cattr_origin(base) is not None and k in ("sub", "call", "phi", "elem"):
            # a field of a record kept in class-wide state: same as the dict entry it replaces
            return self.load_sub(base, Val("const", name), preds)
        return Val("field", base, name), preds

    # ------------------------------------------------------------------ ev
    def ev(self, e, preds):
        m = getattr(self, "ev_" + type(e).__name__, None)
        if m is None:
            return Val("unknown", type(e).__name__), preds
        return m(e, preds)

    def ev_Constant(self, e, preds):
        return Val("const", e.value), preds

    def ev_Name(self, e, preds):
        return self.lookup_name(e.id), preds

    def ev_Attribute(self, e, preds):
        base, preds = self.ev(e.value, preds)
        return self.ev_attr(base, e.attr, preds)

    def ev_Tuple(self, e, preds):
        vals = []
        for x in e.elts:
            v, preds = self.ev(x, preds)
            vals.append(v)
        return Val("tuple", *vals), preds

    def ev_List(self, e, preds):
        vals = []
        for x in e.elts:
            v, preds = self.ev(x, preds)
            vals.append(v)
        return Val("list", *vals), preds

    ev_Set = ev_List

    def ev_Starred(self, e, preds):
        v, preds = self.ev(e.value, preds)
        return Val("star", v), preds

    def ev_Dict(self, e, preds):
        pairs = []
        for k, v in zip(e.keys, e.values):
            kv = None
            if k is not None:
                kv, preds = self.ev(k, preds)
            vv, preds = self.ev(v, preds)
            if k is None:
                # ** spread reads the mapping
                preds = self.touch_read(vv, "spread", preds)
            pairs.append((kv, vv))
        return Val("dict", *pairs), preds

    def ev_JoinedStr(self, e, preds):
        parts = []
        for x in e.values:
            if isinstance(x, ast.Constant):
                parts.append(x.value)
            elif isinstance(x, ast.FormattedValue):
                v, preds = self.ev(x.value, preds)
                parts.append(v)
        return Val("fmt", *parts), preds

    def ev_Lambda(self, e, preds):
        # a closure: body evaluated when called, in the environment captured here
        tab = self.__dict__.setdefault("_lambdas", {})
        lid = len(tab)
        tab[lid] = (e, dict(self.fr.env), self.fr)
        return Val("lambda", lid), preds

    def call_lambda(self, lid, args, kwargs, preds):
        from .interp import Frame

        e, env, fr0 = self._lambdas[lid]
        fr = Frame(fr0.func, fr0.recv, fr0.defining_cls)
        fr.env = dict(env)
        fr.closure = getattr(fr0, "closure", {})
        fr.ret_join = fr0.ret_join
        fr.sig = getattr(fr0, "sig", None)
        params = [a.arg for a in e.args.args]
        for p_, a_ in zip(params, args):
            fr.env[p_] = a_
        for k_, v_ in (kwargs or {}).items():
            if k_ in params:
                fr.env[k_] = v_
        saved = self.frames
        self.frames = saved + [fr]
        try:
            return self.ev(e.body, preds)
        finally:
            self.frames = saved

    # ------------------------------------------------------------ contextlib.ExitStack
    def exitstack_new(self):
        tab = self.__dict__.setdefault("_exitstacks", {})
        sid = len(tab)
        tab[sid] = {"cur": [], "all": []}
        return Val("exitstack", sid)

    def exitstack_unwind(self, sid, exc_args, preds):
        st_ = self._exitstacks[sid]
        # leaving by an exception: everything ever registered is unwound (an exception before pop_all() finds the
        # entries still on the stack); leaving normally: what is on the stack now
        exceptional = any(a_.kind == "unknown" and a_.args and a_.args[0] == "exc" for a_ in exc_args)
        todo = list(reversed(st_["all"] if exceptional else st_["cur"]))
        for ent in todo:
            if not preds:
                break
            if ent[0] == "cm":
                _, preds = self.call_method(ent[1], "__exit__", list(exc_args), {}, preds)
            else:
                _, f_, a_, k_ = ent
                _, preds = self.call_value(f_, list(a_), dict(k_), preds)
        return preds

    def _exitstack_conditional(self):
        """The registration being evaluated is nested in a compound statement inside the `with` block."""
        st = self.cur_stmt
        p_ = getattr(st, "_parent", None)
        while p_ is not None and not isinstance(p_, (ast.FunctionDef, ast.AsyncFunctionDef)):
            if isinstance(p_, ast.With):
                return False
            if isinstance(p_, (ast.If, ast.For, ast.While, ast.Try)):
                return True
            p_ = getattr(p_, "_parent", None)
        return False

    def exitstack_call(self, stack, name, args, kwargs, preds):
        sid = stack.args[0]
        st_ = self._exitstacks[sid]
        if name == "__enter__":
            return stack, preds
        if name == "enter_context" and args:
            if args[0].kind == "obj" and self.is_counter(args[0]) and self._exitstack_conditional():
                raise AnalysisError("not modelled: a counter context is entered into an ExitStack conditionally (the model of ExitStack is not path sensitive); not decided")
            rv, preds = self.call_method(args[0], "__enter__", [], {}, preds)
            if preds:
                st_["cur"].append(("cm", args[0]))
                st_["all"].append(("cm", args[0]))
            return rv, preds
        if name == "push" and args:
            st_["cur"].append(("cm", args[0]))
            st_["all"].append(("cm", args[0]))
            return args[0], preds
        if name == "callback" and args:
            ent = ("cb", args[0], tuple(args[1:]), tuple(sorted((k, v) for k, v in kwargs.items() if k != "**")))
            st_["cur"].append(ent)
            st_["all"].append(ent)
            return args[0], preds
        if name == "pop_all":
            new = self.exitstack_new()
            n_ = self._exitstacks[new.args[0]]
            n_["cur"].extend(st_["cur"])
            n_["all"].extend(st_["cur"])
            del st_["cur"][:]
            return new, preds
        if name == "close":
            out = self.exitstack_unwind(sid, [NONE, NONE, NONE], preds)
            del st_["cur"][:]
            return NONE, out
        if name == "__exit__":
            ex = list(args[:3]) + [NONE] * (3 - len(args[:3]))
            return Val("const", False), self.exitstack_unwind(sid, ex, preds)
        return Val("unknown", "exitstack." + name), preds

    def ev_Yield(self, e, preds):
        v = NONE
        if e.value is not None:
            v, preds = self.ev(e.value, preds)
        hook = getattr(self.fr, "yield_hook", None)
        if hook is not None:
            # generator driven by a `with` statement: the body of that statement runs here
            return NONE, hook(v, preds)
        if e.value is not None:
            self.fr.ret_vals.append(Val("gen", v))
        return NONE, preds

    def ev_YieldFrom(self, e, preds):
        v, preds = self.ev(e.value, preds)
        return NONE, preds

    def ev_UnaryOp(self, e, preds):
        v, preds = self.ev(e.operand, preds)
        if isinstance(e.op, ast.Not):
            if v.kind == "inst":
                _, preds = self.call_method(v, "__len__", [], {}, preds)
            return Val("not", v), preds
        if v.kind == "const":
            try:
                return Val("const", {ast.USub: lambda x: -x, ast.UAdd: lambda x: +x, ast.Invert: lambda x: ~x}[type(e.op)](v.args[0])), preds
            except Exception:
                pass
        return Val("bin", type(e.op).__name__, v, NONE), preds

    def ev_BinOp(self, e, preds):
        a, preds = self.ev(e.left, preds)
        b, preds = self.ev(e.right, preds)
        op = type(e.op).__name__
        if a.kind == "const" and b.kind == "const":
            try:
                import operator

                f = {"Add": operator.add, "Sub": operator.sub, "Mult": operator.mul, "FloorDiv": operator.floordiv, "Pow": operator.pow, "BitOr": operator.or_}[op]
                return Val("const", f(a.args[0], b.args[0])), preds
            except Exception:
                pass
        for x in (a, b):
            preds = self.touch_read(x, "binop", preds)
        return Val("bin", op, a, b), preds

    def ev_BoolOp(self, e, preds):
        op = "or" if isinstance(e.op, ast.Or) else "and"
        vals = []
        outs = set()
        cur = preds
        for i, x in enumerate(e.values):
            if not cur:
                break
            v, cur = self.ev(x, cur)
            vals.append(v)
            t = self.truth(v)
            if i == len(e.values) - 1:
                outs |= cur
                break
            short = (op == "or" and t is True) or (op == "and" and t is False)
            if short:
                outs |= cur
                cur = set()
                break
            cont = (op == "or" and t is False) or (op == "and" and t is True)
            if not cont:
                outs |= cur  # may short-circuit here
        if len(vals) == 1:
            return vals[0], outs
        return Val("boolop", op, *vals), outs

    def ev_IfExp(self, e, preds):
        c, preds = self.ev(e.test, preds)
        t = self.truth(c)
        vals, outs = [], set()
        if t is not False:
            v, o = self.ev(e.body, preds)
            vals.append(v)
            outs |= o
        if t is not True:
            v, o = self.ev(e.orelse, preds)
            vals.append(v)
            outs |= o
        return self.merge_vals(vals), outs

    def ev_NamedExpr(self, e, preds):
        v, preds = self.ev(e.value, preds)
        self.fr.env[e.target.id] = v
        return v, preds

    def ev_Subscript(self, e, preds):
        base, preds = self.ev(e.value, preds)
        idx, preds = self.ev(e.slice, preds)
        return self.load_sub(base, idx, preds)

    def ev_Slice(self, e, preds):
        parts = []
        for x in (e.lower, e.upper, e.step):
            if x is None:
                parts.append(NONE)
            else:
                v, preds = self.ev(x, preds)
                parts.append(v)
        return Val("slice", *parts), preds

    def ev_Compare(self, e, preds):
        left, preds = self.ev(e.left, preds)
        res = None
        for op, rhs in zip(e.ops, e.comparators):
            right, preds = self.ev(rhs, preds)
            opn = type(op).__name__
            v, preds = self.compare(opn, left, right, preds)
            res = v if res is None else Val("boolop", "and", res, v)
            left = right
        return res, preds

    def compare(self, opn, a, b, preds):
        sym = CMP_SYM[opn]
        if opn in ("Is", "IsNot"):
            return Val("cmp", sym, a, b), preds
        if opn in ("In", "NotIn"):
            if b.kind == "inst":
                rv, preds = self.call_method(b, "__contains__", [a], {}, preds)
                return (rv if opn == "In" else Val("not", rv)), preds
            preds = self.touch_read(b, "contains", preds, may_raise=False)
            return Val("cmp", sym, a, b), preds
        d = CMP_DUNDER[opn]
        if a.kind == "inst":
            rv, preds = self.call_method(a, d, [b], {}, preds)
            return Val("cmp", sym, a, b) if rv is None else Val("cmpres", sym, a, b, rv), preds
        if b.kind == "inst":
            rv, preds = self.call_method(b, CMP_REFLECT[d], [a], {}, preds)
            return Val("cmpres", sym, a, b, rv), preds
        # an element of the tree may be a nested collection: optional dispatch
        for x, other, dd in ((a, b, d), (b, a, CMP_REFLECT[d])):
            ci = self.as_inst(x) if x.kind != "inst" else None
            if ci is not None:
                j = self.node("maybe_child", preds, what="compare", value=x)
                self._child_dispatch = True
                rv, o = self.call_method(ci, dd, [other], {}, j)
                self._child_dispatch = False
                preds = set(j) | set(o)
                break
        return Val("cmp", sym, a, b), preds

    def comprehension(self, e, kind, preds):
        env0 = dict(self.fr.env)
        iters = []
        heads = []
        for g in e.generators:
            itv, preds = self.ev(g.iter, preds)
            itv, preds = self.iterate(itv, preds)
            iters.append(itv)
            head = self.join("comp-head")
            self.link_all(preds, head)
            heads.append(head)
            preds = self.assign(g.target, self.elem_of(itv), {head})
            for c in g.ifs:
                cv, preds = self.ev(c, preds)
                # filtered elements loop back
                self.link_all(preds, head)
        if kind == "dict":
            kv, preds = self.ev(e.key, preds)
            vv, preds = self.ev(e.value, preds)
            elt = Val("tuple", kv, vv)
        else:
            elt, preds = self.ev(e.elt, preds)
        self.link_all(preds, heads[-1])
        for i in range(len(heads) - 1, 0, -1):
            self.g.link(heads[i], heads[i - 1])
        self.fr.env = env0
        has_filter = any(g_.ifs for g_ in e.generators)
        return Val("comp", kind, elt, tuple(iters), has_filter), {heads[0]}

    def ev_ListComp(self, e, preds):
        return self.comprehension(e, "list", preds)

    def ev_SetComp(self, e, preds):
        return self.comprehension(e, "set", preds)

    def ev_GeneratorExp(self, e, preds):
        return self.comprehension(e, "gen", preds)

    def ev_DictComp(self, e, preds):
        return self.comprehension(e, "dict", preds)

    # ----------------------------------------------------- data / state ops
    def touch_read(self, v, op, preds, may_raise=False):
        """Emit a read event if v is the tree's data container or class-wide
        buffer state (bare, not an element)."""
        if not isinstance(v, Val) or not preds:
            return preds
        if v.kind == "data":
            return self.node("data_read", preds, may_raise=may_raise, exc=("KeyError", "IndexError", "TypeError"), op=op, owner=v.args[0], target=v)
        if v.kind == "cattr":
            return self.node("cs_read", preds, name=v.args[1], op=op, cls=v.args[0], target=v)
        return preds

    def elem_of(self, itv):
        """The loop variable's value when iterating ``itv``: for the result of an (inlined) generator function the
        values it yields, otherwise an opaque element of the iterable."""
        alts = itv.args if itv.kind == "phi" else (itv,)
        ys = [a.args[0] for a in alts if a.kind == "gen" and a.args]
        rest = [a for a in alts if a.kind != "gen" and not (a.kind == "const" and a.args[0] is None)]
        if ys and not rest:
            return self.merge_vals(ys)
        return Val("elem", itv)

    def iterate(self, itv, preds):
        if itv.kind == "inst":
            rv, preds = self.call_method(itv, "__iter__", [], {}, preds)
            return Val("call", "iter", None, (itv,), ()), preds
        if itv.kind == "phi":
            for alt in itv.args:
                if alt.kind == "inst":
                    j = self.node("maybe", preds, what="iterate-alt")
                    rv, o = self.call_method(alt, "__iter__", [], {}, j)
                    preds = set(j) | set(o)
            return itv, preds
        preds = self.touch_read(itv, "iter", preds)
        return itv, preds

    def load_sub(self, base, idx, preds):
        k = base.kind
        if k == "phi":
            vals, outs = [], set()
            for alt in base.args:
                v, o = self.load_sub(alt, idx, preds)
                vals.append(v)
                outs |= o
            return self.merge_vals(vals), outs
        if k == "inst":
            return self.call_method(base, "__getitem__", [idx], {}, preds)
        if k == "data":
            o = self.node("data_read", preds, may_raise=True, exc=("KeyError", "IndexError", "TypeError"), op="getitem", owner=base.args[0], target=base, index=idx)
            return Val("sub", base, idx), o
        if k in ("tuple", "list") and idx.kind == "const" and isinstance(idx.args[0], int):
            try:
                return base.args[idx.args[0]], preds
            except IndexError:
                pass
        if k == "args" and idx.kind == "const" and isinstance(idx.args[0], int) and idx.args[0] < len(base.args):
            return base.args[idx.args[0]], preds
        if k == "dict" and idx.kind == "const":
            for kk, vv in base.args:
                if kk == idx:
                    return vv, preds
        if k == "elem" or (k == "sub" and base.args[0].kind == "elem"):
            return Val("sub", base, idx), preds
        ca = cattr_origin(base)
        if ca is not None and base.kind == "cattr" and idx.kind == "const" and ca.args[0].kind == "cls":
            # a def-time table of classes (the registry): read its bucket
            owner_, dv = self.model.lookup(ca.args[0].args[0][0], ca.args[1])
            if isinstance(dv, dict) and idx.args[0] in dv and isinstance(dv[idx.args[0]], list) and dv[idx.args[0]] and all(isinstance(x, ClassInfo) for x in dv[idx.args[0]]):
                o = self.node("cs_read", preds, name=ca.args[1], op="getitem", cls=ca.args[0], target=base, index=idx)
                return Val("tuple", *[Val("classref", x) for x in dv[idx.args[0]]]), o
        if ca is not None:
            name = ca.args[1]
            if name in self.lock_tables() and base.kind == "cattr":
                # the lookup cannot fail as long as the lock table only grows,
                # which rule C10.d checks separately
                o = self.node("cs_read", preds, name=name, op="getitem", cls=ca.args[0], target=base, index=idx)
                return Val("lock", name, idx), o
            # fields of an entry (constant key on an entry dict) are created together
            # by _initialize_data_in_buffer: reading one does not raise
            b0 = base
            if b0.kind == "phi":
                b0 = next((x for x in b0.args if x.kind in ("sub", "call")), b0)
            entry_like = (b0.kind == "sub" and b0.args[0].kind == "cattr") or (b0.kind == "call" and b0.args[0] in ("get", "pop", "setdefault") and b0.args[1] is not None and b0.args[1].kind == "cattr")
            entry_field = entry_like and idx.kind == "const" and isinstance(idx.args[0], str)
            o = self.node("cs_read", preds, may_raise=not entry_field, exc=("KeyError",), name=name, op="getitem", cls=ca.args[0], target=base, index=idx)
            return Val("sub", base, idx), o
        if k in ("param", "kwargs", "const"):
            o = self.node("sub_read", preds, may_raise=True, exc=("KeyError", "IndexError", "TypeError"), base=base, index=idx)
            return Val("sub", base, idx), o
        d = data_origin(base)
        if d is not None:
            ci = self.as_inst(base)
            if ci is not None:
                j = self.node("maybe_child", preds, what="getitem", value=base)
                rv, o = self.call_method(ci, "__getitem__", [idx], {}, j)
                return Val("sub", base, idx), set(j) | set(o)
        o = self.node("sub_read", preds, may_raise=True, base=base, index=idx)
        return Val("sub", base, idx), o

    def store_sub(self, base, idx, value, preds):
        k = base.kind
        if k == "inst":
            _, o = self.call_method(base, "__setitem__", [idx, value], {}, preds)
            return o
        if k == "data":
            return self.node("data_mut", preds, may_raise=True, exc=("IndexError", "TypeError"), op="setitem", mode="inplace", owner=base.args[0], target=base, index=idx, value=value)
        ca = cattr_origin(base)
        if ca is not None:
            return self.node("cs_write", preds, name=ca.args[1], op="setitem", cls=ca.args[0], target=base, index=idx, value=value)
        if k == "phi":
            outs = set()
            for alt in base.args:
                outs |= self.store_sub(alt, idx, value, preds)
            return outs
        if k in ("dict", "list", "comp"):
            return self.node("local_mut", preds, op="setitem", base=base, index=idx, value=value)
        return self.node("sub_store", preds, may_raise=True, base=base, index=idx, value=value)

    def del_sub(self, base, idx, preds):
        k = base.kind
        if k == "inst":
            _, o = self.call_method(base, "__delitem__", [idx], {}, preds)
            return o
        if k == "data":
            return self.node("data_mut", preds, may_raise=True, exc=("KeyError", "IndexError", "TypeError"), op="delitem", mode="inplace", owner=base.args[0], target=base, index=idx)
        ca = cattr_origin(base)
        if ca is not None:
            return self.node("cs_write", preds, may_raise=True, exc=("KeyError",), name=ca.args[1], op="delitem", cls=ca.args[0], target=base, index=idx)
        return self.node("sub_del", preds, may_raise=True, base=base, index=idx)

    def aug_attr(self, base, name, op, rhs, preds):
        if base.kind == "inst" and name == "_data":
            return self.node("data_mut", preds, may_raise=True, exc=("TypeError",), op="iadd", mode="inplace", owner=base, target=Val("data", base), value=rhs)
        if base.kind == "obj" and name == "_count" and "_count" in self.objfields.get(base.args[1], {}):
            key = self.count_key(base.args[1])
            delta = rhs.args[0] if rhs.kind == "const" and isinstance(rhs.args[0], int) else None
            if op == "Sub" and delta is not None:
                delta = -delta
            elif op != "Add":
                delta = None
            c = self.get_count(key)
            if delta is None:
                nc = None
            elif c is None:
                nc = ("ge", delta) if delta > 0 else None
            elif isinstance(c, tuple):
                nc = ("ge", c[1] + delta) if c[1] + delta > 0 else None
            else:
                nc = c + delta
            self.counts[key] = nc
            return self.node("count", preds, counter=key, delta=delta, after=self.counts[key])
        if base.kind in ("cls", "classref"):
            cv = base if base.kind == "cls" else Val("cls", (base.args[0],))
            return self.node("cs_write", preds, name=name, op="aug", augop=op, cls=cv, target=Val("cattr", cv, name), value=rhs)
        if base.kind == "obj":
            f = self.objfields.setdefault(base.args[1], {})
            f[name] = Val("bin", op, f.get(name, Val("unknown", name)), rhs)
            return self.node("obj_store", preds, obj=base, name=name, value=rhs, op="aug")
        return self.node("attr_store", preds, base=base, name=name, value=rhs, op="aug")

    def assign(self, t, v, preds):
        if v.kind == "elem" and v.args[0].kind == "tuple" and v.args[0].args:
            v = self.merge_vals(list(v.args[0].args))
        if isinstance(t, ast.Name):
            self.fr.env[t.id] = v
            return preds
        if isinstance(t, (ast.Tuple, ast.List)):
            for i, x in enumerate(t.elts):
                if isinstance(x, ast.Starred):
                    preds = self.assign(x.value, Val("sub", v, Val("const", "*")), preds)
                    continue
                if v.kind in ("tuple", "list") and i < len(v.args):
                    xv = v.args[i]
                else:
                    xv = Val("sub", v, Val("const", i))
                preds = self.assign(x, xv, preds)
            return preds
        if isinstance(t, ast.Subscript):
            base, preds = self.ev(t.value, preds)
            idx, preds = self.ev(t.slice, preds)
            return self.store_sub(base, idx, v, preds)
        if isinstance(t, ast.Attribute):
            base, preds = self.ev(t.value, preds)
            return self.store_attr(base, t.attr, v, preds)
        return preds

    def store_attr(self, base, name, v, preds):
        k = base.kind
        if k == "inst":
            if name == "_data":
                return self.node("data_mut", preds, op="rebind", mode="rebind", owner=base, target=Val("data", base), value=v)
            # a property setter?
            for c in base.args[0]:
                owner, pv = self.model.lookup(c, name)
                if isinstance(pv, Prop) and pv.fset is not None:
                    o, _ = self.inline(pv.fset, base, [v], {}, preds)
                    return o
                break
            # __setattr__ override (AttrDict) on non-constructor paths
            return self.node("attr_store", preds, base=base, name=name, value=v, op="set")
        if k == "obj":
            f = self.objfields.setdefault(base.args[1], {})
            if name == "_count":
                f[name] = Val("count", base.args[1])
                if v.kind == "const" and isinstance(v.args[0], int):
                    key = self.count_key(base.args[1])
                    if key not in self.counts:
                        self.counts[key] = v.args[0]
                return self.node("obj_store", preds, obj=base, name=name, value=v, op="set")
            f[name] = v if name not in f or f[name] == v else self.merge_vals([f[name], v])
            return self.node("obj_store", preds, obj=base, name=name, value=v, op="set")
        if k in ("cls", "classref"):
            cv = base if k == "cls" else Val("cls", (base.args[0],))
            return self.node("cs_write", preds, name=name, op="rebind", cls=cv, target=Val("cattr", cv, name), value=v)
        ca = cattr_origin(base)
        if ca is not None:
            if name in self.record_field_names():
                return self.store_sub(base, Val("const", name), v, preds)
            return self.node("cs_write", preds, name=ca.args[1], op="setattr:" + name, cls=ca.args[0], target=base, value=v)
        return self.node("attr_store", preds, base=base, name=name, value=v, op="set")

    # --------------------------------------------------------------- calls
    def ev_Call(self, e, preds):
        f = e.func
        # evaluate callee
        recv = None
        mname = None
        if isinstance(f, ast.Attribute):
            recv, preds = self.ev(f.value, preds)
            mname = f.attr
            callee = None
        else:
            callee, preds = self.ev(f, preds)
        args = []
        for a in e.args:
            v, preds = self.ev(a, preds)
            args.append(v)
        kwargs = {}
        for kw in e.keywords:
            v, preds = self.ev(kw.value, preds)
            if kw.arg is None:
                kwargs.setdefault("**", []).append(v)
            else:
                kwargs[kw.arg] = v
        if not preds:
            return Val("unknown", "dead"), set()
        if mname is not None:
            return self.call_method(recv, mname, args, kwargs, preds)
        return self.call_value(callee, args, kwargs, preds)

    def kw_tuple(self, kwargs):
        out = []
        for k, v in kwargs.items():
            if k == "**":
                for x in v:
                    out.append(("**", x))
            else:
                out.append((k, v))
        return tuple(out)

    def ext_call(self, name, recv, args, kwargs, preds, pure=False, exc=("*",)):
        for a in list(args) + [v for k, v in kwargs.items() if k != "**"]:
            preds = self.touch_read(a, "arg:" + name, preds)
        rv = Val("call", name, recv, tuple(args), self.kw_tuple(kwargs))
        o = self.node("call_ext", preds, may_raise=not pure, exc=exc, callee=name, recv=recv, args=tuple(args), kwargs=self.kw_tuple(kwargs), result=rv)
        return rv, o

    def call_value(self, callee, args, kwargs, preds):
        k = callee.kind
        if k == "lambda":
            return self.call_lambda(callee.args[0], args, kwargs, preds)
        if k == "ext" and callee.args[0] in ("contextlib.ExitStack", "ExitStack"):
            return self.exitstack_new(), preds
        if k == "func":
            return self.call_function(callee.args[0], None, args, kwargs, preds)
        if k == "bound":
            return self.call_function(callee.args[1], callee.args[0], args, kwargs, preds)
        if k == "classref":
            return self.instantiate(callee.args[0], args, kwargs, preds)
        if k == "cls":
            cs_ = callee.args[0]
            if cs_ and isinstance(cs_[0], ClassInfo) and not cs_[0].is_subclass_of("SyncedCollection"):
                return self.instantiate(cs_[0], args, kwargs, preds)  # cls(...) in a classmethod of a helper class
            # type(self)(...) : construct a collection
            return self.construct_collection(callee, args, kwargs, preds)
        if k == "ext":
            return self.call_builtin(callee.args[0], args, kwargs, preds)
        if k == "phi":
            vals, outs = [], set()
            for alt in callee.args:
                v, o = self.call_value(alt, args, kwargs, preds)
                vals.append(v)
                outs |= o
            return self.merge_vals(vals), outs
        if k == "elem" or k == "sub":
            # element of a tuple of functions (validators)
            base = callee.args[0]
            if base.kind == "tuple" and all(x.kind == "func" for x in base.args):
                funcs = tuple(x.args[0] for x in base.args)
                rv = Val("call", "oneof", None, tuple(args), ())
                if not funcs:
                    return rv, preds
                o = self.node("call_pkg", preds, may_raise=True, funcs=funcs, func="|".join(f.qualname for f in funcs), recv=None, args=tuple(args), kwargs=(), oneof=True)
                return rv, o
            if base.kind in ("tuple", "const") and not base.args:
                return Val("unknown", "call-of-empty"), preds
        if k == "superattr":
            return self.call_method(callee.args[0], callee.args[1], args, kwargs, preds)
        if k == "field":
            # a bound method kept in a local (`append = out.append; append(x)`): same as calling it on its owner
            return self.call_method(callee.args[0], callee.args[1], args, kwargs, preds)
        if k == "rawfunc":
            # the undecorated function called from inside its wrapper: f(self, *args, **kwargs)
            f, r = callee.args
            flat = []
            for x in args:
                if x.kind == "star" and x.args[0].kind in ("args", "tuple", "list"):
                    flat.extend(x.args[0].args)
                else:
                    flat.append(x)
            recv2 = r
            if r is not None and flat:
                recv2, flat = flat[0], flat[1:]
            o, rv = self.inline(f, recv2, flat, kwargs, preds, skip_wrapper=True)
            return rv, o
        if k == "inst":
            return self.call_method(callee, "__call__", args, kwargs, preds)
        o = self.node("call_unknown", preds, may_raise=True, callee=callee, recv=None, method=None, args=tuple(args), kwargs=self.kw_tuple(kwargs))
        return Val("call", "unknown", callee, tuple(args), self.kw_tuple(kwargs)), o

    def call_builtin(self, name, args, kwargs, preds):
        short = name.split(".")[-1] if name.startswith("builtins.") else None
        if short == "super" and not args:
            fr = self.fr
            return Val("super", fr.defining_cls, fr.recv), preds
        if short == "type" and len(args) == 1:
            a = args[0]
            if a.kind == "inst":
                return Val("cls", a.args[0]), preds
            if a.kind == "obj":
                return Val("classref", a.args[0]), preds
            return Val("call", "type", None, tuple(args), ()), preds
        if short in PURE_BUILTINS:
            return Val("call", short, None, tuple(args), self.kw_tuple(kwargs)), preds
        if short in ("setattr", "delattr", "getattr"):
            o = self.node("dyn_attr", preds, may_raise=True, exc=("AttributeError",), op=short, args=tuple(args))
            return Val("call", short, None, tuple(args), ()), o
        if short in CONTAINER_BUILTINS and args:
            a = args[0]
            dunder = {"len": "__len__", "iter": "__iter__", "reversed": "__reversed__", "repr": "__repr__", "str": "__str__", "bool": "__len__"}.get(short)
            if a.kind == "inst":
                if dunder:
                    rv, preds = self.call_method(a, dunder, [], {}, preds)
                else:
                    _, preds = self.iterate(a, preds)
                return Val("call", short, None, tuple(args), ()), preds
            if a.kind == "data":
                preds = self.touch_read(a, short, preds)
                return Val("call", short, None, tuple(args), ()), preds
            if short == "next" and a.kind == "comp":
                # next((elt for x in it if cond), default): the first produced element, or the default
                elt = a.args[1]
                if len(args) >= 2:
                    return self.merge_vals([elt, args[1]]), preds
                o = self.node("call_ext", preds, may_raise=True, exc=("StopIteration",), callee="builtins.next", recv=None, args=tuple(args), kwargs=(), result=None)
                return elt, o
            if a.kind == "comp" or a.kind == "call" and a.args[0] == "iter":
                return Val("call", short, None, tuple(args), ()), preds
            ci = self.as_inst(a) if short in ("repr", "str") else None
            may = short in ("next", "list", "dict", "tuple", "sorted", "sum", "set")
            if may:
                o = self.node("call_ext", preds, may_raise=True, exc=("TypeError", "ValueError", "StopIteration") if short != "next" else ("StopIteration",), callee="builtins." + short, recv=None, args=tuple(args), kwargs=(), result=None)
                return Val("call", short, None, tuple(args), ()), o
            return Val("call", short, None, tuple(args), ()), preds
        if short in CONTAINER_BUILTINS:
            return Val("call", short, None, tuple(args), ()), preds
        # exception constructors and other classes from outside
        last = name.split(".")[-1]
        if last[:1].isupper() and (last.endswith("Error") or last.endswith("Exception") or last in ("StopIteration", "Warning", "KeyboardInterrupt")):
            return Val("call", "new:" + last, None, tuple(args), self.kw_tuple(kwargs)), preds
        if short == "open":
            return self.ext_call("builtins.open", None, args, kwargs, preds, exc=("OSError",))
        return self.ext_call(name, None, args, kwargs, preds)

    def record_fields(self, cls):
        """[(field, default expr or None)] if ``cls`` is a plain record (dataclass, NamedTuple, or a slots / simple class
        whose __init__ only copies its parameters into same-named attributes); else None.  Records are modelled as
        dicts keyed by field name, so a buffer entry kept in such a class is analysed like the dict it replaces."""
        cache = self.__dict__.setdefault("_record_cache", {})
        if cls in cache:
            return cache[cls]
        res = None
        node = cls.node
        decos = [ast.unparse(d).split("(")[0].split(".")[-1] for d in node.decorator_list]
        bases = [ast.unparse(b).split(".")[-1] for b in node.bases]
        if "dataclass" in decos or "NamedTuple" in bases:
            res = [(st.target.id, st.value) for st in node.body if isinstance(st, ast.AnnAssign) and isinstance(st.target, ast.Name)]
        else:
            init = next((st for st in node.body if isinstance(st, ast.FunctionDef) and st.name == "__init__"), None)
            others = [st for st in node.body if isinstance(st, ast.FunctionDef) and st.name not in ("__init__", "__repr__", "__eq__")]
            if init is not None and not others and not node.bases:
                params = [a.arg for a in init.args.args][1:]
                body = [st for st in init.body if not (isinstance(st, ast.Expr) and isinstance(st.value, ast.Constant))]
                ok = bool(params) and len(body) == len(params)
                for st in body:
                    if not (isinstance(st, ast.Assign) and len(st.targets) == 1 and isinstance(st.targets[0], ast.Attribute) and isinstance(st.targets[0].value, ast.Name)
                            and st.targets[0].value.id == "self" and isinstance(st.value, ast.Name) and st.value.id == st.targets[0].attr and st.value.id in params):
                        ok = False
                if ok:
                    defaults = [None] * (len(params) - len(init.args.defaults)) + list(init.args.defaults)
                    res = list(zip(params, defaults))
        cache[cls] = res
        if res:
            self.model.__dict__.setdefault("_record_field_names", set()).update(f for f, _ in res)
        return res

    def record_field_names(self):
        m = self.model
        if not hasattr(m, "_record_scan_done"):
            m._record_scan_done = True
            for c in m.class_order:
                if c.module.name != ABC_MOD and not c.is_subclass_of("SyncedCollection"):
                    try:
                        self.record_fields(c)
                    except Exception:
                        pass
        return getattr(m, "_record_field_names", set())

    def instantiate(self, cls, args, kwargs, preds):
        if isinstance(cls, ClassInfo) and not cls.is_subclass_of("SyncedCollection"):
            rf = self.record_fields(cls)
            if rf:
                items = []
                for i, (fname, dflt) in enumerate(rf):
                    if i < len(args):
                        v = args[i]
                    elif fname in kwargs:
                        v = kwargs[fname]
                    elif dflt is not None:
                        v, preds = self.ev(dflt, preds)
                    else:
                        v = NONE
                    items.append((Val("const", fname), v))
                return Val("dict", *items), preds
        if isinstance(cls, ExtClass):
            last = cls.name.split(".")[-1]
            return Val("call", "new:" + last, None, tuple(args), self.kw_tuple(kwargs)), preds
        if cls.is_subclass_of("SyncedCollection"):
            return self.construct_collection(Val("cls", (cls,)), args, kwargs, preds)
        # exception classes of the package
        if any(isinstance(k, ExtClass) and k.name.split(".")[-1] in ("Exception", "RuntimeError", "TypeError", "ValueError", "UserWarning", "BaseException") for k in cls.mro):
            return Val("call", "new:" + cls.name, None, tuple(args), self.kw_tuple(kwargs)), preds
        oid = getattr(self, "_force_oid", None)
        if oid is None:
            st = self.cur_stmt
            oid = ("new", cls.name, getattr(st, "lineno", 0), len(self.frames))
        else:
            self._force_oid = None
        self.objfields.setdefault(oid, {})
        ov, out = self.construct_obj(cls, oid, args, kwargs, silent=False, preds=preds)
        return ov, out

    def construct_collection(self, clsval, args, kwargs, preds):
        rv = Val("call", "construct", clsval, tuple(args), self.kw_tuple(kwargs))
        if self.ctx.inline_ctor:
            vals, outs = [], set()
            for c in clsval.args[0]:
                owner, init = self.model.lookup(c, "__init__")
                parent = kwargs.get("parent")
                rho = "root" if (parent is None or parent == NONE) else "nested"
                inst = Val("inst", (c,), rho, "N")
                if isinstance(init, Method):
                    o, _ = self.inline(init.func, inst, args, kwargs, preds)
                    outs |= o
                else:
                    outs |= set(preds)
            return rv, outs
        o = self.node("construct", preds, may_raise=True, cls=clsval, args=tuple(args), kwargs=self.kw_tuple(kwargs), result=rv)
        return rv, o

    def policy(self, func):
        """inline | opaque | pure  (DESIGN 2.4; one place, with reasons)."""
        q = func.qualname
        if q in self.ctx.opaque or func.name in self.ctx.opaque:
            return "opaque"
        mod = func.module.name
        if mod.endswith("numpy_utils"):
            return "pure"  # classification / conversion helpers: no tree or resource effects
        if func.cls is not None and func.cls.name == "AbstractTypeResolver":
            return "pure"  # memoised classifier; analysed separately (C19)
        if func.cls is None and func.parent is None and mod.endswith("validators"):
            return "opaque"  # validators: may raise, no effects
        if func.name == "_from_base" and not self.ctx.inline_ctor:
            return "opaque"  # conversion: analysed as its own entry point (C16/C18)
        return "inline"

    def call_function(self, func, recv, args, kwargs, preds):
        pol = self.policy(func)
        self.resolved_calls += 1
        if pol == "inline":
            if func.kind == "staticmethod":
                recv = None
            o, rv = self.inline(func, recv, args, kwargs, preds)
            return rv, o
        rv = Val("call", "pkg:" + func.qualname, recv, tuple(args), self.kw_tuple(kwargs))
        for a in list(args) + [v for k, v in kwargs.items() if k != "**"]:
            preds = self.touch_read(a, "arg:" + func.qualname, preds)
        o = self.node("call_pkg", preds, may_raise=(pol == "opaque"), func=func.qualname, fname=func.name, funcs=(func,), recv=recv, args=tuple(args), kwargs=self.kw_tuple(kwargs), pure=(pol == "pure"), result=rv)
        return rv, o

    def call_method(self, recv, name, args, kwargs, preds):
        if not preds:
            return Val("unknown", "dead"), set()
        k = recv.kind
        if k == "exitstack":
            return self.exitstack_call(recv, name, args, kwargs, preds)
        if k == "phi":
            vals, outs = [], set()
            for alt in recv.args:
                if alt.kind == "const" and alt.args[0] is None:
                    continue
                v, o = self.call_method(alt, name, args, kwargs, preds)
                vals.append(v)
                outs |= o
            if not vals:
                return Val("unknown", "call-on-none"), preds
            return self.merge_vals(vals), outs
        if k == "inst":
            return self.call_on_classes(recv, recv.args[0], name, args, kwargs, preds, after=None)
        if k == "super":
            defining, r = recv.args
            if r is None:
                return Val("unknown", "super-no-recv"), preds
            if r.kind == "inst":
                return self.call_on_classes(r, r.args[0], name, args, kwargs, preds, after=defining)
            if r.kind == "cls":
                return self.call_on_cls(r, name, args, kwargs, preds, after=defining)
            if r.kind == "obj":
                owner, v = self.model.lookup(r.args[0], name, after=defining)
                if isinstance(v, Method):
                    o, rv = self.inline(v.func, r, args, kwargs, preds, defining_cls=owner)
                    return rv, o
                return NONE, preds
            return Val("unknown", "super"), preds
        if k == "cls":
            return self.call_on_cls(recv, name, args, kwargs, preds)
        if k == "classref" and isinstance(recv.args[0], ClassInfo):
            return self.call_on_cls(Val("cls", (recv.args[0],)), name, args, kwargs, preds, explicit=True)
        if k == "obj":
            cls, oid = recv.args
            f = self.objfields.get(oid, {})
            if name in f:
                return self.call_value(f[name], args, kwargs, preds)
            owner, v = self.model.lookup(cls, name)
            if isinstance(v, Method):
                o, rv = self.inline(v.func, recv, args, kwargs, preds, defining_cls=owner)
                return rv, o
            o = self.node("call_unknown", preds, may_raise=True, callee=None, recv=recv, method=name, args=tuple(args), kwargs=self.kw_tuple(kwargs))
            return Val("call", name, recv, tuple(args), ()), o
        if k == "lock":
            if name in ("__enter__", "acquire"):
                return NONE, self.node("lock", preds, op="+", lock=recv)
            if name in ("__exit__", "release"):
                return NONE, self.node("lock", preds, op="-", lock=recv)
        if k == "data":
            if name in MUTATING:
                exc = ("KeyError", "IndexError", "ValueError", "TypeError")
                o = self.node("data_mut", preds, may_raise=True, exc=exc, op=name, mode="inplace", owner=recv.args[0], target=recv, args=tuple(args), kwargs=self.kw_tuple(kwargs))
            else:
                o = self.node("data_read", preds, may_raise=name not in PURE_METHODS, exc=("ValueError", "TypeError"), op=name, owner=recv.args[0], target=recv, args=tuple(args))
            return Val("call", name, recv, tuple(args), self.kw_tuple(kwargs)), o
        if k == "global":
            rv = Val("call", name, recv, tuple(args), ())
            o = self.node("classify", preds, resolver=recv, method=name, args=tuple(args), result=rv)
            return rv, o
        if k == "ext":
            return self.call_builtin(f"{recv.args[0]}.{name}", args, kwargs, preds)
        if k == "bound" and name == "__call__":
            return self.call_value(recv, args, kwargs, preds)
        ca = cattr_origin(recv)
        ci = self.as_inst(recv)
        if ci is not None and (ca is None or recv.kind != "cattr"):
            d = data_origin(recv)
            if d is not None:
                j = self.node("maybe_child", preds, what="call:" + name, value=recv)
                self._child_dispatch = True
                rv, o = self.call_method(ci, name, args, kwargs, j)
                self._child_dispatch = False
                return rv, o
            return self.call_method(ci, name, args, kwargs, preds)
        depth = 0
        x = recv
        while ca is not None and x is not ca and x.kind in ("sub", "elem") and depth < 6:
            x = x.args[0]
            depth += 1
        # a non-mutating method of a value *loaded from* an entry field (depth >= 2,
        # e.g. blob.decode()) is not an access to the shared state itself
        if ca is not None and (x is ca or x == ca) and (depth <= 1 or name in MUTATING):
            rv = Val("call", name, recv, tuple(args), self.kw_tuple(kwargs))
            if name in MUTATING:
                exc = {"popitem": ("KeyError",), "pop": ("KeyError", "IndexError"), "remove": ("ValueError",), "append": (), "add": (), "clear": (), "update": ("TypeError", "ValueError")}.get(name, ("KeyError", "IndexError", "ValueError"))
                o = self.node("cs_write", preds, may_raise=bool(exc), exc=exc or ("*",), name=ca.args[1], op="call:" + name, cls=ca.args[0], target=recv, args=tuple(args), value=Val("tuple", *args))
            else:
                o = self.node("cs_read", preds, name=ca.args[1], op="call:" + name, cls=ca.args[0], target=recv, args=tuple(args))
            return rv, o
        rv = Val("call", name, recv, tuple(args), self.kw_tuple(kwargs))
        for a in args:
            preds = self.touch_read(a, "arg:" + name, preds)
        pure = name in PURE_METHODS and recv.kind in ("param", "const", "call", "sub", "elem", "dict", "kwargs", "fmt", "field", "bin")
        if recv.kind in ("dict", "list", "comp", "tuple"):
            ck = recv.args[0] if recv.kind == "comp" else recv.kind
            if (ck == "list" and name in DICT_ONLY) or (ck == "dict" and name in LIST_ONLY):
                o = self.node("bad_method", preds, may_raise=True, exc=("AttributeError",), recv=recv, method=name, container=ck)
                return rv, o
        if recv.kind in ("dict", "list", "comp", "tuple") and name in MUTATING | PURE_METHODS:
            if name in MUTATING:
                return rv, self.node("local_mut", preds, op=name, base=recv, args=tuple(args), value=Val("tuple", *args))
            return rv, preds
        o = self.node("call_unknown", preds, may_raise=not pure, callee=None, recv=recv, method=name, args=tuple(args), kwargs=self.kw_tuple(kwargs), result=rv)
        if not pure and args and recv.kind in ("call", "mut") and self.frames:
            # an opaque local object absorbs what is fed into it (m.update(blob)):
            # keep the provenance on the variable(s) holding it
            nv = Val("mut", recv, tuple(args))
            env = self.fr.env
            for k_, v_ in list(env.items()):
                if v_ == recv:
                    env[k_] = nv
        return rv, o

    def call_on_cls(self, clsval, name, args, kwargs, preds, after=None, explicit=False):
        groups = {}
        for c in clsval.args[0]:
            owner, v = self.model.lookup(c, name, after=after)
            groups.setdefault(id(v), [v, owner, []])[2].append(c)
        vals, outs = [], set()
        for v, owner, cs in groups.values():
            cv = Val("cls", tuple(cs))
            if isinstance(v, Method):
                f = v.func
                if f.kind == "classmethod":
                    rv, o = self.call_function_d(f, cv, args, kwargs, preds, owner)
                elif f.kind == "staticmethod":
                    rv, o = self.call_function_d(f, None, args, kwargs, preds, owner)
                else:
                    # unbound: first positional argument is the receiver
                    if args:
                        rv, o = self.call_function_d(f, args[0], args[1:], kwargs, preds, owner)
                    else:
                        rv, o = Val("unknown", "unbound"), preds
                vals.append(rv)
                outs |= o
            elif v is None:
                if name == "__init_subclass__" or name == "__init__":
                    vals.append(NONE)
                    outs |= set(preds)
                else:
                    o = self.node("call_unknown", preds, may_raise=True, callee=None, recv=cv, method=name, args=tuple(args), kwargs=self.kw_tuple(kwargs))
                    vals.append(Val("call", name, cv, tuple(args), ()))
                    outs |= o
            else:
                val, p2 = self.class_attr(cv, name, preds)
                rv, o = self.call_value(val, args, kwargs, p2)
                vals.append(rv)
                outs |= o
        return self.merge_vals(vals), outs

    def call_function_d(self, f, recv, args, kwargs, preds, owner):
        pol = self.policy(f)
        if pol == "inline":
            self.resolved_calls += 1
            o, rv = self.inline(f, recv, args, kwargs, preds, defining_cls=owner if isinstance(owner, ClassInfo) else None)
            return rv, o
        return self.call_function(f, recv, args, kwargs, preds)

    def call_on_classes(self, inst, classes, name, args, kwargs, preds, after=None):
        groups = {}
        for c in classes:
            owner, v = self.model.lookup(c, name, after=after)
            if v is None and name == "__ne__":
                owner, v = self.model.lookup(c, "__eq__", after=after)
            groups.setdefault(id(v), [v, owner, []])[2].append(c)
        vals, outs = [], set()
        via_child = getattr(self, "_child_dispatch", False)
        for v, owner, cs in groups.values():
            ninst = Val("inst", tuple(cs), inst.args[1], inst.args[2])
            if isinstance(v, Method):
                f = v.func
                self._child_dispatch = via_child
                if f.kind == "classmethod":
                    rv, o = self.call_function_d(f, Val("cls", tuple(cs)), args, kwargs, preds, owner)
                elif f.kind == "staticmethod":
                    rv, o = self.call_function_d(f, None, args, kwargs, preds, owner)
                else:
                    rv, o = self.call_function_d(f, ninst, args, kwargs, preds, owner)
                vals.append(rv)
                outs |= o
            elif v is None:
                if after is not None and name in ("__init__", "__init_subclass__", "__setattr__", "__delattr__", "__getattribute__"):
                    # object's implementation
                    if name in ("__setattr__", "__delattr__"):
                        o = self.node("attr_store", preds, base=ninst, name=args[0] if args else None, value=args[1] if len(args) > 1 else None, op="object." + name)
                        outs |= o
                    else:
                        outs |= set(preds)
                    vals.append(NONE)
                    continue
                # instance attribute holding a callable, or missing
                fv = self.inst_field(ninst, name)
                if fv is not None:
                    rv, o = self.call_value(fv, args, kwargs, preds)
                else:
                    o = self.node("call_unknown", preds, may_raise=True, callee=None, recv=ninst, method=name, args=tuple(args), kwargs=self.kw_tuple(kwargs))
                    rv = Val("call", name, ninst, tuple(args), ())
                vals.append(rv)
                outs |= o
            else:
                val, p2 = self.class_attr(Val("cls", tuple(cs)), name, preds, inst=ninst)
                rv, o = self.call_value(val, args, kwargs, p2)
                vals.append(rv)
                outs |= o
        return self.merge_vals(vals), outs


class _NoVal:
    def __repr__(self):
        return "<noval>"


_NOVAL = _NoVal()


def _is_cls_expr(e):
    if isinstance(e, ast.Name) and e.id == "cls":
        return True
    if isinstance(e, ast.Call) and isinstance(e.func, ast.Name) and e.func.id == "type":
        return True
    return False
