"""Abstract evaluation of the classifier predicates (E8): resolvers, tags,
purity per representative type; validator capability extraction."""
import ast

from . import AnalysisError
from .model import ABC_MOD, Inst, Unevaluable, dotted

T, F, ID = "T", "F", "ID"  # true / false / instance-dependent

# representative types -> names for which isinstance(obj, name) is true
REPS = {
    "str": {"str", "Sequence", "Collection", "Reversible", "Iterable", "Sized", "Container", "Hashable"},
    "int": {"int", "Hashable"},
    "bool": {"bool", "int", "Hashable"},
    "float": {"float", "Hashable"},
    "NoneType": {"NoneType", "Hashable"},
    "complex": {"complex", "Hashable"},
    "dict": {"dict", "Mapping", "MutableMapping", "Collection", "Iterable", "Sized", "Container", "Reversible"},
    "list": {"list", "Sequence", "MutableSequence", "Collection", "Iterable", "Sized", "Container", "Reversible"},
    "tuple": {"tuple", "Sequence", "Collection", "Iterable", "Sized", "Container", "Reversible", "Hashable"},
    "bytes": {"bytes", "Sequence", "ByteString", "Collection", "Iterable", "Sized", "Container", "Reversible", "Hashable"},
    "bytearray": {"bytearray", "Sequence", "MutableSequence", "ByteString", "Collection", "Iterable", "Sized", "Container", "Reversible"},
    "range": {"range", "Sequence", "Collection", "Iterable", "Sized", "Container", "Reversible", "Hashable"},
    "set": {"set", "Set", "MutableSet", "Collection", "Iterable", "Sized", "Container"},
    "frozenset": {"frozenset", "Set", "Collection", "Iterable", "Sized", "Container", "Hashable"},
    "object": {"Hashable"},
    "SyncedDict subclass": {"SyncedCollection", "SyncedDict", "Mapping", "MutableMapping", "Collection", "Iterable", "Sized", "Container"},
    "SyncedList subclass": {"SyncedCollection", "SyncedList", "Sequence", "MutableSequence", "Collection", "Iterable", "Sized", "Container", "Reversible"},
    "user Mapping": {"Mapping", "Collection", "Iterable", "Sized", "Container"},
    "user Sequence": {"Sequence", "Collection", "Iterable", "Sized", "Container", "Reversible"},
    "user Mapping+Sequence": {"Mapping", "Sequence", "Collection", "Iterable", "Sized", "Container", "Reversible"},
    "numpy.ndarray": {"numpy.ndarray", "ndarray", "Collection", "Iterable", "Sized", "Container"},
    "numpy.ndarray subclass": {"numpy.ndarray", "ndarray", "Collection", "Iterable", "Sized", "Container"},
    "numpy.number": {"numpy.number", "number", "numpy.generic", "Hashable"},
    "numpy.bool_": {"numpy.bool_", "bool_", "numpy.generic", "Hashable"},
}
# exact type name of each representative (for exact-type blocklists)
EXACT = {k: k for k in REPS}
EXACT["numpy.ndarray subclass"] = "<subclass of numpy.ndarray>"
EXACT["SyncedDict subclass"] = "<subclass of SyncedDict>"
EXACT["SyncedList subclass"] = "<subclass of SyncedList>"
JSON_TYPES = ["str", "int", "float", "bool", "NoneType", "dict", "list"]


class Resolver:
    def __init__(self, module, name, call):
        self.module = module
        self.name = name
        self.call = call
        self.tags = []  # (tag, lambda node)
        self.blocklist_expr = None
        self.display = True


def find_resolvers(model):
    out = []
    for mname, mod in model.modules.items():
        if mname == ABC_MOD:
            continue
        for name, sym in mod.symbols.items():
            if sym[0] != "var":
                continue
            e = sym[1]
            if isinstance(e, ast.Call):
                r = model.resolve_dotted(mod, e.func)
                if r is not None and r[0] == "class" and r[1].name == "AbstractTypeResolver":
                    res = Resolver(mod, name, e)
                    table = e.args[0] if e.args else None
                    for k in e.keywords:
                        if k.arg == "abstract_type_identifiers":
                            table = k.value
                        if k.arg == "cache_blocklist":
                            res.blocklist_expr = k.value
                    if len(e.args) > 1:
                        res.blocklist_expr = e.args[1]
                    if isinstance(table, ast.Dict):
                        for kk, vv in zip(table.keys, table.values):
                            if isinstance(kk, ast.Constant) and isinstance(kk.value, str):
                                res.tags.append((kk.value, vv))
                            else:
                                res.display = False
                    else:
                        res.display = False
                    out.append(res)
    return out


def _isinstance_names(model, module, e):
    """Class names of the second argument of isinstance."""
    elts = e.elts if isinstance(e, ast.Tuple) else [e]
    names = []
    for x in elts:
        if isinstance(x, ast.Call) and dotted(x.func) == "type" and x.args and isinstance(x.args[0], ast.Constant) and x.args[0].value is None:
            names.append("NoneType")
            continue
        r = model.resolve_dotted(module, x) if isinstance(x, (ast.Name, ast.Attribute)) else None
        if r is not None and r[0] == "class":
            names.append(r[1].name)
        elif r is not None and r[0] == "ext":
            names.append(r[1])
        else:
            d = dotted(x)
            names.append(d or "?")
    return names


def and3(a, b):
    if a == F:
        return F
    if a == T:
        return b
    # a == ID
    return F if b == F else ID


def or3(a, b):
    if a == T:
        return T
    if a == F:
        return b
    return T if b == T else ID


def not3(a):
    return {T: F, F: T, ID: ID}[a]


def eval_pred(model, module, e, rep, env, depth=0):
    """3-valued evaluation of a predicate expression for a representative
    type.  env: parameter name -> 'obj' marks the classified object."""
    if depth > 8:
        return ID
    isa = REPS[rep]
    if isinstance(e, ast.Lambda):
        p = e.args.args[0].arg if e.args.args else None
        return eval_pred(model, module, e.body, rep, {p: "obj"}, depth + 1)
    if isinstance(e, ast.Name) and not env and depth == 0:
        # a named predicate function used as the identifier instead of a lambda
        r = model.resolve(module, e.id)
        if r is not None and r[0] == "func" and len(r[-1].node.args.args) == 1:
            f = r[-1]
            return _eval_body(model, f.module, list(f.node.body), rep, {f.node.args.args[0].arg: "obj"}, depth + 1)
    if isinstance(e, ast.BoolOp):
        vals = [eval_pred(model, module, v, rep, env, depth + 1) for v in e.values]
        out = vals[0]
        for v in vals[1:]:
            out = and3(out, v) if isinstance(e.op, ast.And) else or3(out, v)
        return out
    if isinstance(e, ast.UnaryOp) and isinstance(e.op, ast.Not):
        return not3(eval_pred(model, module, e.operand, rep, env, depth + 1))
    if isinstance(e, ast.Constant):
        return T if e.value else F
    if isinstance(e, ast.Name):
        if env.get(e.id) == "obj":
            return ID
        try:
            v = model.consteval(module, e)
            return T if v else F
        except Unevaluable:
            return ID
    if isinstance(e, ast.Call):
        d = dotted(e.func)
        if d == "isinstance" and len(e.args) == 2 and isinstance(e.args[0], ast.Name) and env.get(e.args[0].id) == "obj":
            names = _isinstance_names(model, module, e.args[1])
            hit = any(n in isa or n.split(".")[-1] in isa for n in names)
            return T if hit else F
        r = model.resolve_dotted(module, e.func) if isinstance(e.func, (ast.Name, ast.Attribute)) else None
        if r is not None and r[0] == "func":
            f = r[1]
            params = [a.arg for a in f.node.args.args]
            nenv = {}
            for p, a in zip(params, e.args):
                if isinstance(a, ast.Name) and env.get(a.id) == "obj":
                    nenv[p] = "obj"
            if nenv:
                return _eval_body(model, f.module, list(f.node.body), rep, nenv, depth + 1)
            return ID
        return ID
    if isinstance(e, (ast.Compare, ast.Attribute, ast.Subscript)):
        # anything that looks at the object itself
        for n in ast.walk(e):
            if isinstance(n, ast.Name) and env.get(n.id) == "obj":
                return ID
        return ID
    return ID


def _eval_body(model, module, stmts, rep, env, depth):
    """3-valued result of a helper predicate written as statements: guard clauses / if-else with returns.
    Anything else (assignments, loops, ...) makes the result instance dependent (ID) - never T/F by guessing."""
    if depth > 12:
        return ID
    if not stmts:
        return F  # falls off the end: returns None
    st, rest = stmts[0], stmts[1:]
    if isinstance(st, ast.Expr) and isinstance(st.value, ast.Constant):
        return _eval_body(model, module, rest, rep, env, depth)
    if isinstance(st, ast.Pass):
        return _eval_body(model, module, rest, rep, env, depth)
    if isinstance(st, ast.Return):
        return F if st.value is None else eval_pred(model, module, st.value, rep, env, depth + 1)
    if isinstance(st, ast.If):
        c = eval_pred(model, module, st.test, rep, env, depth + 1)
        if c == T:
            return _eval_body(model, module, list(st.body) + rest, rep, env, depth + 1)
        if c == F:
            return _eval_body(model, module, list(st.orelse) + rest, rep, env, depth + 1)
        a = _eval_body(model, module, list(st.body) + rest, rep, env, depth + 1)
        b = _eval_body(model, module, list(st.orelse) + rest, rep, env, depth + 1)
        return a if (a == b and a in (T, F)) else ID
    return ID


def tag_of(model, res, rep):
    """(tag or None, pure?, possible tags) for a representative type."""
    possible = []
    pure = True
    for tag, lam in res.tags:
        v = eval_pred(model, res.module, lam, rep, {})
        if v == T:
            possible.append(tag)
            return (possible[0] if pure else None), pure, possible
        if v == ID:
            pure = False
            possible.append(tag)
    possible.append(None)
    return (None if pure else None), pure, possible


def blocklist_names(model, res):
    if res.blocklist_expr is None:
        return []
    try:
        v = model.consteval(res.module, res.blocklist_expr)
    except Unevaluable:
        return None
    if v is None:
        return []
    out = []
    for x in v if isinstance(v, (tuple, list)) else [v]:
        k = getattr(x, "kind", "")
        out.append(k[4:] if k.startswith("ext:") else str(x))
    return out


def exclusion_mode(model):
    """How get_type decides not to cache: 'exact' | 'subclass' | 'unknown' | None (no test at all).
    Decided on the smallest comparison / call of the guarding test that mentions the blocklist."""
    f = model.find_function("AbstractTypeResolver.get_type")
    mode = None

    def atoms(t):
        if isinstance(t, ast.BoolOp):
            for v in t.values:
                yield from atoms(v)
        elif isinstance(t, ast.UnaryOp) and isinstance(t.op, ast.Not):
            yield from atoms(t.operand)
        else:
            yield t

    for n in ast.walk(f.node):
        if isinstance(n, (ast.If, ast.IfExp)) and "cache_blocklist" in ast.unparse(n.test):
            for a in atoms(n.test):
                src = ast.unparse(a)
                if "cache_blocklist" not in src:
                    continue
                if isinstance(a, ast.Compare) and isinstance(a.ops[0], (ast.In, ast.NotIn)):
                    mode = "exact"
                elif isinstance(a, ast.Call) and dotted(a.func) in ("issubclass", "isinstance"):
                    mode = "subclass" if mode != "exact" else mode
                else:
                    mode = mode or "unknown"
    return mode


# ---------------------------------------------------------------------------
# validator capability extraction
# ---------------------------------------------------------------------------
class ValidatorInfo:
    def __init__(self, func):
        self.func = func
        self.resolver = None
        self.branches = {}  # tag (or None for else / fallthrough) -> dict(raises=[...], recurses=bool, returns=bool)
        self.tag_literals = []
        self.has_else = False


def _terminates(stmts):
    """The statement list never falls through to what follows it."""
    if not stmts:
        return False
    last = stmts[-1]
    if isinstance(last, (ast.Return, ast.Raise, ast.Continue, ast.Break)):
        return True
    if isinstance(last, ast.If):
        return _terminates(last.body) and _terminates(last.orelse)
    return False


def _conds_of(node, stop):
    """(test, polarity) pairs that hold when `node` runs, up to function `stop`: the enclosing if-arms, plus
    the guard clauses before it (an earlier sibling `if c: ...; return/raise/continue` puts everything after it
    under `not c`, exactly like an else arm)."""
    out = []
    cur = node
    while cur is not stop and cur is not None:
        par = getattr(cur, "_parent", None)
        if isinstance(par, ast.If):
            if cur in par.body:
                out.append((par.test, True))
            elif cur in par.orelse:
                out.append((par.test, False))
        for fld in ("body", "orelse", "finalbody"):
            lst = getattr(par, fld, None)
            if isinstance(lst, list) and cur in lst:
                for sib in lst[: lst.index(cur)]:
                    if isinstance(sib, ast.If):
                        tb, te = _terminates(sib.body), _terminates(sib.orelse)
                        if tb and not te:
                            out.append((sib.test, False))
                            # an elif chain of guard clauses: every test of the chain was false
                            e = sib.orelse
                            while len(e) == 1 and isinstance(e[0], ast.If) and _terminates(e[0].body) and not _terminates(e[0].orelse):
                                out.append((e[0].test, False))
                                e = e[0].orelse
                        elif te and not tb:
                            out.append((sib.test, True))
        cur = par
    return out


def analyse_validator(model, func, resolvers):
    info = ValidatorInfo(func)
    byname = {r.name: r for r in resolvers}
    tagvars = {}
    for n in ast.walk(func.node):
        if isinstance(n, ast.NamedExpr) and isinstance(n.value, ast.Call) and isinstance(n.value.func, ast.Attribute) and n.value.func.attr == "get_type":
            # tag := resolver.get_type(data) inside the first test: the same binding as the assignment statement
            n = ast.copy_location(ast.Assign(targets=[n.target], value=n.value), n)
        if isinstance(n, ast.Assign) and isinstance(n.value, ast.Call) and isinstance(n.value.func, ast.Attribute) and n.value.func.attr == "get_type":
            base = n.value.func.value
            if isinstance(base, ast.Name):
                r = model.resolve(func.module, base.id)
                if r is not None and r[0] == "var":
                    for res in resolvers:
                        if res.module is r[1] and res.name == [k for k, s in r[1].symbols.items() if s[0] == "var" and s[1] is r[2]][0]:
                            info.resolver = res
                for t in n.targets:
                    if isinstance(t, ast.Name):
                        tagvars[t.id] = True

    def tag_test(test):
        if isinstance(test, ast.Compare) and isinstance(test.left, ast.NamedExpr) and isinstance(test.left.target, ast.Name) and test.left.target.id in tagvars:
            test = ast.copy_location(ast.Compare(left=ast.Name(id=test.left.target.id, ctx=ast.Load()), ops=test.ops, comparators=test.comparators), test)
        if isinstance(test, ast.Compare) and len(test.ops) == 1 and isinstance(test.ops[0], ast.Eq) and isinstance(test.left, ast.Name) and test.left.id in tagvars and isinstance(test.comparators[0], ast.Constant):
            return test.comparators[0].value
        return None

    # dispatch tables:  handler = TABLE.get(tag) / TABLE[tag];  if handler is None: raise ...;  handler(data)
    # with TABLE a module-level dict display {"TAG": private function}: one branch per key, analysed in the helper
    dispatch_vars = {}  # local name -> {tag: FuncInfo}
    for n in ast.walk(func.node):
        if isinstance(n, ast.Assign) and len(n.targets) == 1 and isinstance(n.targets[0], ast.Name):
            v = n.value
            tbl = None
            if isinstance(v, ast.Call) and isinstance(v.func, ast.Attribute) and v.func.attr == "get" and isinstance(v.func.value, ast.Name) and len(v.args) >= 1 and isinstance(v.args[0], ast.Name) and v.args[0].id in tagvars:
                if len(v.args) == 1 or (isinstance(v.args[1], ast.Constant) and v.args[1].value is None):
                    tbl = v.func.value.id
            elif isinstance(v, ast.Subscript) and isinstance(v.value, ast.Name) and isinstance(v.slice, ast.Name) and v.slice.id in tagvars:
                tbl = v.value.id
            if tbl is not None:
                r = model.resolve(func.module, tbl)
                if r is not None and r[0] == "var" and isinstance(r[2], ast.Dict) and all(isinstance(k, ast.Constant) for k in r[2].keys):
                    table = {}
                    for k, val in zip(r[2].keys, r[2].values):
                        fr = model.resolve(func.module, val.id) if isinstance(val, ast.Name) else None
                        if fr is not None and fr[0] == "func":
                            table[k.value] = fr[-1]
                    if len(table) == len(r[2].keys):
                        dispatch_vars[n.targets[0].id] = table

    def else_test(test, pol):
        """The test (with this polarity) means: no table entry / no tag matched."""
        if isinstance(test, ast.Compare) and len(test.ops) == 1 and isinstance(test.left, ast.Name) and test.left.id in dispatch_vars \
                and isinstance(test.comparators[0], ast.Constant) and test.comparators[0].value is None:
            return (isinstance(test.ops[0], ast.Is) and pol) or (isinstance(test.ops[0], ast.IsNot) and not pol)
        if isinstance(test, ast.UnaryOp) and isinstance(test.op, ast.Not):
            return else_test(test.operand, not pol)
        if isinstance(test, ast.Name) and test.id in dispatch_vars:
            return not pol
        return False

    for n in ast.walk(func.node):
        if isinstance(n, ast.If):
            t = tag_test(n.test)
            if t is not None:
                info.tag_literals.append((t, n))
    helper_names = {f.name for tbl in dispatch_vars.values() for f in tbl.values()}
    for tbl in dispatch_vars.values():
        for t, f in tbl.items():
            info.tag_literals.append((t, f.node))
    events = []

    def is_event(n, fname):
        return isinstance(n, ast.Raise) or isinstance(n, ast.Return) or (isinstance(n, ast.Call) and isinstance(n.func, ast.Name) and (n.func.id == fname or n.func.id in helper_names))

    for n in ast.walk(func.node):
        if is_event(n, func.name):
            if isinstance(n, ast.Call) and n.func.id in dispatch_vars:
                continue
            conds = _conds_of(n, func.node)
            pos_tags = [tag_test(t) for t, pol in conds if pol and tag_test(t) is not None]
            neg_tags = [tag_test(t) for t, pol in conds if not pol and tag_test(t) is not None]
            is_else = any(else_test(t, pol) for t, pol in conds)
            branch = pos_tags[0] if pos_tags else ("<else>" if (neg_tags or is_else) else "<top>")
            conds = [(t, pol) for t, pol in conds if not else_test(t, pol) and not else_test(t, not pol)]
            events.append((n, branch, conds, neg_tags))
    for tbl in dispatch_vars.values():
        for t, f in tbl.items():
            for n in ast.walk(f.node):
                if is_event(n, func.name):
                    events.append((n, t, _conds_of(n, f.node), []))
            info.branches.setdefault(t, {"raises": [], "recurses": False, "returns": False})
    for n, branch, conds, neg_tags in events:
        b = info.branches.setdefault(branch, {"raises": [], "recurses": False, "returns": False})
        if isinstance(n, ast.Raise):
            exc = dotted(n.exc) if n.exc is not None else None
            guards = []
            for t, pol in conds:
                src = ast.unparse(t)
                if "isinstance" in src and "str" in src and tag_test(t) is None:
                    neg = (not pol) != (isinstance(t, ast.UnaryOp))
                    guards.append("non-str" if neg else "is-str")
                elif isinstance(t, ast.Compare) and isinstance(t.ops[0], ast.In) and isinstance(t.left, ast.Constant) and t.left.value == ".":
                    guards.append("dot" if pol else "no-dot")
                elif tag_test(t) is None:
                    guards.append("other:" + src[:40])
            b["raises"].append((exc, guards))
        elif isinstance(n, ast.Call):
            b["recurses"] = True
        else:
            b["returns"] = True
    return info


def exc_base(model, name):
    """'TypeError' / 'ValueError' / other root of an exception class name."""
    seen = set()
    cur = name.split(".")[-1] if name else None
    while cur and cur not in seen:
        seen.add(cur)
        if cur in ("TypeError", "ValueError"):
            return cur
        nxt = None
        for c in model.class_order:
            if c.name == cur and c.bases:
                nxt = c.bases[0].name.split(".")[-1]
        cur = nxt
    return None


def capabilities(model, info):
    """capability -> set of container kinds it descends through."""
    caps = {}
    live_tags = [t for t, _ in info.resolver.tags] if info.resolver else []
    desc = set()
    for tag in ("MAPPING", "SEQUENCE"):
        b = info.branches.get(tag)
        if b and b["recurses"] and tag in live_tags:
            desc.add(tag)
    m = info.branches.get("MAPPING") if "MAPPING" in live_tags else None
    if m:
        for exc, guards in m["raises"]:
            base = exc_base(model, exc)
            if "non-str" in guards and base == "TypeError":
                caps["non-str-key"] = set(desc)
            if "dot" in guards and base == "ValueError":
                caps["dotted-key"] = set(desc)
    e = info.branches.get("<else>")
    if e:
        for exc, guards in e["raises"]:
            if exc_base(model, exc) == "TypeError" and not [g for g in guards if g.startswith("other")]:
                caps["non-json-type"] = set(desc)
    return caps
