"""Obligation bookkeeping, findings, known-findings file, evidence, replay (E9)."""
import hashlib
import json
import os
import re
import time

VERIF = os.path.dirname(os.path.dirname(os.path.abspath(__file__)))
KNOWN_FILE = os.path.join(VERIF, "known_findings.txt")


class Finding:
    def __init__(self, prop, rule, key, message, witness=None, contexts=None):
        self.prop = prop
        self.rule = rule
        self.key = key
        self.message = message
        self.witness = witness or []
        self.contexts = contexts or []

    def to_json(self):
        return {"property": self.prop, "rule": self.rule, "key": self.key, "message": self.message, "witness": self.witness[:60], "contexts": self.contexts[:40]}


def norm_key(*parts):
    out = []
    for p in parts:
        p = " ".join(str(p).split())
        p = p.replace("|", "/")
        out.append(p)
    return "|".join(out)


class Report:
    """Collects what one unit (or the whole check) did."""

    def __init__(self, prop):
        self.prop = prop
        self.obligations = 0
        self.discharged = 0
        self.by_rule = {}
        self.findings = {}  # key -> Finding
        self.samples = []
        self.contexts = 0
        self.nontrivial = set()
        self.undecided = []
        self.notes = []
        self.floors = []
        self.facts = []  # cross-unit facts for finalize() (JSON-able lists)

    # ---------------------------------------------------------------- api
    def ok(self, rule, descr=None, sample=False):
        self.obligations += 1
        self.discharged += 1
        r = self.by_rule.setdefault(rule, [0, 0])
        r[0] += 1
        r[1] += 1
        if descr and (sample or len([s for s in self.samples if s.get("rule") == rule]) < 2):
            self.samples.append({"rule": rule, "obligation": descr, "status": "discharged"})

    def fail(self, rule, key, message, witness=None, context=None):
        self.obligations += 1
        r = self.by_rule.setdefault(rule, [0, 0])
        r[0] += 1
        f = self.findings.get(key)
        if f is None:
            f = self.findings[key] = Finding(self.prop, rule, key, message, witness)
        if context and context not in f.contexts:
            f.contexts.append(context)

    def context(self, label, nontrivial=True):
        self.contexts += 1
        if nontrivial:
            self.nontrivial.add(label)

    def undecided_note(self, rule, what):
        self.undecided.append({"rule": rule, "what": what})

    def floor(self, what, got, minimum):
        self.floors.append((what, got, minimum))

    # ------------------------------------------------------------- merging
    def dump(self):
        return {
            "obligations": self.obligations,
            "discharged": self.discharged,
            "by_rule": self.by_rule,
            "findings": [f.to_json() for f in self.findings.values()],
            "samples": self.samples,
            "contexts": self.contexts,
            "nontrivial": sorted(self.nontrivial),
            "undecided": self.undecided,
            "notes": self.notes,
            "floors": self.floors,
            "facts": self.facts,
        }

    def merge(self, d):
        self.obligations += d["obligations"]
        self.discharged += d["discharged"]
        for k, (a, b) in d["by_rule"].items():
            r = self.by_rule.setdefault(k, [0, 0])
            r[0] += a
            r[1] += b
        for fj in d["findings"]:
            f = self.findings.get(fj["key"])
            if f is None:
                self.findings[fj["key"]] = Finding(fj["property"], fj["rule"], fj["key"], fj["message"], fj["witness"], list(fj["contexts"]))
            else:
                for c in fj["contexts"]:
                    if c not in f.contexts:
                        f.contexts.append(c)
        for s in d["samples"]:
            if len([x for x in self.samples if x.get("rule") == s.get("rule")]) < 3:
                self.samples.append(s)
        self.contexts += d["contexts"]
        self.nontrivial.update(d["nontrivial"])
        self.undecided.extend(d["undecided"])
        self.notes.extend(d["notes"])
        self.floors.extend(tuple(x) for x in d["floors"])
        for f in d.get("facts", []):
            if f not in self.facts:
                self.facts.append(f)


# ---------------------------------------------------------------------------
def load_known(path=KNOWN_FILE):
    """known: property=<id> key=<key> :: <text>   /  fixed: property=<id> <commit> <text>"""
    known = {}
    fixed = []
    if not os.path.exists(path):
        return known, fixed
    with open(path, encoding="utf-8") as f:
        for line in f:
            line = line.rstrip("\n")
            if not line.strip() or line.lstrip().startswith("#"):
                continue
            m = re.match(r"known:\s+property=(\S+)\s+key=(.*?)\s+::\s+(.*)$", line)
            if m:
                known.setdefault(m.group(1), {})[m.group(2).strip()] = m.group(3)
                continue
            m = re.match(r"fixed:\s+property=(\S+)\s+(\S+)\s+(.*)$", line)
            if m:
                fixed.append((m.group(1), m.group(2), m.group(3)))
    return known, fixed


def finish(rep, tier, seed, level, wall, meta, stats, explanation, rule_text, trusted_base, assumptions, out=print, evidence_dir=None, replay_dir=None, extra=None):
    """Print the verdict lines, write evidence and replay files, return exit code."""
    prop = rep.prop
    evidence_dir = evidence_dir or os.path.join(VERIF, "evidence")
    replay_dir = replay_dir or os.path.join(VERIF, "replay")
    os.makedirs(evidence_dir, exist_ok=True)
    os.makedirs(replay_dir, exist_ok=True)
    known, fixed = load_known()
    known = known.get(prop, {})
    violations = []
    known_hits = []
    for key, f in sorted(rep.findings.items()):
        if key in known:
            known_hits.append(f)
        else:
            violations.append(f)
    code = 0
    for what, got, minimum in rep.floors:
        if got < minimum:
            out(f"ANALYSIS-ERROR: property={prop} instance floor not met: {what}: {got} < {minimum}")
            code = 2
    for f in known_hits:
        out(f"KNOWN-FINDING: property={prop} {f.rule} {f.key} :: {f.message}")
    for f in violations:
        digest = hashlib.sha1(f.key.encode()).hexdigest()[:12]
        path = os.path.join(replay_dir, f"{prop}-{digest}.json")
        with open(path, "w", encoding="utf-8") as fh:
            json.dump({"property": prop, "tier": tier, **f.to_json(), "root": meta.get("root")}, fh, indent=1)
        out(f"VIOLATION property={prop} replay={path}")
        out(f"  rule {f.rule}: {f.message}")
        out(f"  key: {f.key}")
        for c in f.contexts[:6]:
            out(f"  context: {c}")
        for w in f.witness[:25]:
            out(f"    {w}")
        if code == 0:
            code = 1
    samples = list(rep.samples[:12])
    for f in (violations + known_hits)[:12]:
        samples.append({"rule": f.rule, "status": "violation" if f in violations else "known-finding", "key": f.key, "message": f.message, "witness": f.witness[:15], "contexts": f.contexts[:8]})
    if not samples:
        samples.append({"note": "no obligations generated"})
    ev = {
        "property_id": prop,
        "tier": tier,
        "seed": seed,
        "level": level,
        "coverage": {
            "obligations": rep.obligations,
            "discharged": rep.discharged + 0,
            "known_findings": len(known_hits),
            "unlisted_violations": len(violations),
            "by_rule": {k: {"obligations": a, "discharged": b} for k, (a, b) in sorted(rep.by_rule.items())},
            "evaluations": max(rep.contexts, 1),
            "distinct_nontrivial": len(rep.nontrivial),
            "rule": rule_text,
            "samples": samples,
            "explanation": explanation,
            "checker_cmd": meta.get("cmd", ""),
            "trusted_base": trusted_base,
            "undecided": rep.undecided[:20],
            "engine": stats,
            "exhaustive": True,
            "analysed_root": meta.get("root"),
            "notes": rep.notes[:20],
        },
        "assumptions": assumptions,
        "wall_s": round(wall, 3),
        "violations": len(violations),
    }
    if extra:
        ev["coverage"].update(extra)
    with open(os.path.join(evidence_dir, f"{prop}.json"), "w", encoding="utf-8") as fh:
        json.dump(ev, fh, indent=1, default=str)
    out(
        f"{prop} [{tier}] obligations={rep.obligations} discharged={rep.discharged} known={len(known_hits)} "
        f"violations={len(violations)} contexts={rep.contexts} wall={wall:.1f}s exit={code}"
    )
    return code
