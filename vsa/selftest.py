"""Rule-instance liveness (thorough tier) and the self-test of the checker.

For each firing variant a scratch copy of the analysed tree is made in a
temporary directory (outside /repo and /verif, removed immediately), the
edit is applied, the result is byte-compiled (nothing is executed), and the
property's quick analysis is run on it: the expected rule must report an
unlisted violation.  Silent variants must produce no unlisted violation.
"""
import io
import json
import multiprocessing as mp
import os
import shutil
import subprocess
import sys
import tempfile
import time

from .variants import FIRING, SILENT

VERIF = os.path.dirname(os.path.dirname(os.path.abspath(__file__)))
SMOKE = ["c03-ge-uses-gt", "c08-temp-in-tmpdir", "c12-parse-float-hook", "c19-memo-keyed-by-id", "c11-dead-tag", "s-mirrored-comparison"]


def apply_variant(root, v, dst):
    """Copy <root>/synced_collections to dst and apply the edits.
    Returns None, or a string explaining why the variant does not apply."""
    shutil.copytree(os.path.join(root, "synced_collections"), os.path.join(dst, "synced_collections"), ignore=shutil.ignore_patterns("__pycache__"))
    for rel, old, new in v["edits"]:
        p = os.path.join(dst, "synced_collections", rel)
        if not os.path.exists(p):
            return f"file {rel} missing"
        s = open(p, encoding="utf-8").read()
        if s.count(old) < 1:
            return f"anchor text of the edit not present in {rel} (tree differs from the corpus baseline)"
        s = s.replace(old, new, 1)
        try:
            compile(s, p, "exec")
        except SyntaxError as e:
            return f"variant does not compile: {e}"
        open(p, "w", encoding="utf-8").write(s)
    return None


def run_one(job):
    v, prop, expect, root, inner_jobs = job
    d = tempfile.mkdtemp(prefix="vsa-variant-")
    t0 = time.time()
    try:
        why = apply_variant(root, v, d)
        if why:
            return {"variant": v["id"], "property": prop, "status": "skipped", "why": why}
        cmd = [os.path.join(VERIF, "vcheck"), "run", prop, "--tier", "quick", "--root", d, "--evidence-dir", os.path.join(d, "ev"), "--replay-dir", os.path.join(d, "rp"), "--jobs", str(inner_jobs)]
        r = subprocess.run(cmd, capture_output=True, text=True, cwd=VERIF)
        keys = [l.strip()[5:] for l in r.stdout.splitlines() if l.strip().startswith("key: ")]
        errs = [l for l in r.stdout.splitlines() if l.startswith("ANALYSIS-ERROR")]
        res = {"variant": v["id"], "property": prop, "exit": r.returncode, "violations": keys[:6], "wall_s": round(time.time() - t0, 1)}
        if expect is None:
            res["expected"] = "silent"
            res["status"] = "ok" if (r.returncode == 0 and not keys) else "FAILED"
        else:
            res["expected"] = expect
            hit = [k for k in keys if k.startswith(expect)]
            res["status"] = "ok" if (r.returncode == 1 and hit) else "FAILED"
        if errs:
            res["analysis_errors"] = errs[:3]
        return res
    finally:
        shutil.rmtree(d, ignore_errors=True)


def jobs_for(props, smoke=False):
    out = []
    for v in FIRING:
        if smoke and v["id"] not in SMOKE:
            continue
        for prop, expect in v["fires"].items():
            if props and prop not in props:
                continue
            out.append((v, prop, expect))
    for v in SILENT:
        if smoke and v["id"] not in SMOKE:
            continue
        ps = v["props"]
        if ps == "*":
            ps = props if props else ["C01", "C02", "C03", "C05", "C08", "C11", "C16", "C18", "C19"]
        for prop in ps:
            if props and prop not in props:
                continue
            out.append((v, prop, None))
    return out


def run_variants(props, root="/repo", smoke=False, jobs=None):
    js = jobs_for(props, smoke)
    ncpu = jobs or min(16, os.cpu_count() or 1)
    par = max(1, min(len(js), 4 if ncpu >= 8 else 2))
    inner = max(1, ncpu // par)
    seed = int(os.environ.get("VERIF_SEED", "0") or 0)
    if seed:
        import random

        random.Random(seed).shuffle(js)
    work = [(v, p, e, root, inner) for (v, p, e) in js]
    if par > 1:
        with mp.get_context("fork").Pool(par) as pool:
            return pool.map(run_one, work, chunksize=1)
    return [run_one(w) for w in work]


def run_selftest(props, smoke=False, jobs=None, root="/repo", as_tier=False):
    t0 = time.time()
    res = run_variants(props, root, smoke, jobs)
    bad = [r for r in res if r["status"] == "FAILED"]
    for r in res:
        print(f"selftest {r['status']:7} {r['property']} {r['variant']} expected={r.get('expected')} exit={r.get('exit')} {r.get('violations', r.get('why', ''))}"[:260])
    print(f"selftest: {len(res)} variant runs, {len(bad)} failed, {sum(1 for r in res if r['status'] == 'skipped')} skipped, {time.time() - t0:.0f}s")
    if bad:
        print("ANALYSIS-ERROR: the checker does not judge its own corpus as expected (checker broken, not the repository)")
        return 2
    return 0
