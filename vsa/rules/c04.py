"""C04 - writes through any handle are applied to the backend's current
content: load-before-modify on every mutator, receiver sensitive."""
from ..engine import *
from ..graph import Val, show
from ..report import norm_key
from .. import AnalysisError

META = {
    "level": "other",
    "explanation": (
        "Load-before-modify decided on all paths of every public mutator x concrete class x {root, nested receiver} x buffering mode: "
        "every path from entry to a mutation of the tree's data passes a completed load of the ROOT at suspend depth 0 (C04.a); the load of each backend "
        "reaches a read of the resource itself, no cached shortcut (C04.b). The documented exemption for destructive operations is encoded semantically: "
        "only for a ROOT receiver and only when the unloaded mutation is a total overwrite of the root's content. For a nested receiver nothing is exempt because "
        "the subsequent save of the root rewrites the other parts of a stale tree. (d) the flag by which a write context decides to load is assigned only in the context's constructor: the context object is shared by all operations and threads of a collection. 'Behaves as one shared plain structure' as such is not decided."
    ),
    "rule": "contexts = class x mutator x {root,nested} x mode; non-trivial = has a user mutation; obligation per entry point and context",
    "trusted_base": ["engine call resolution and CFG", "names _load_from_resource/_load_from_buffer as the backend read protocol"],
    "assumptions": [],
}


def units(A, tier):
    return [("class", c.name) for c in A.concrete()] + [("loaders", None)]


def loads_done(g, mu):
    names = ("_load_from_resource",) if mu == "none" else ("_load_from_buffer",)
    return [n.id for n in live(g) if n.kind == "leave" and n["fname"] in names and recv_is_root_T(n)]


def is_total_overwrite(n, entry_func):
    """A root-receiver mutation that replaces the whole content."""
    # inside self._update(<param-derived>) issued directly by the entry point
    for i, (q, r) in enumerate(n.stack):
        if q.split(".")[-1] == "_update" and i == 1:
            return True
    if n["op"] == "clear":
        return True
    if n["op"] == "rebind":
        v = n["value"]
        return v.kind in ("dict", "list") and not any(x.kind in ("data", "inst") for x in v.walk())
    return False


def run_unit(A, unit, rep, tier):
    kind, name = unit
    if kind == "loaders":
        return check_loaders(A, rep)
    cls = A.model.find_class(name)
    eps = A.entry_points(cls)
    for m in A.mutators(cls):
        for rho in ("root", "nested"):
            for mu in A.modes(cls):
                b, g = A.graph(cls, m, rho, mu)
                um = [n for n in live(g) if is_user_mut(n)]
                rep.context(g.label, bool(um))
                if not um:
                    continue
                L = loads_done(g, mu)
                # first mutations reachable without a load
                reach = g.reachable_from([g.entry], avoid=L)
                bad = [n for n in um if n.id in reach]
                entry_func = eps[m]
                if rho == "root":
                    bad = [n for n in bad if not is_total_overwrite(n, entry_func)]
                # C04.c: what a mutator reads from the cached data to compute its change is read after the load
                reads = [n for n in live(g) if n.kind == "data_read" and n["owner"].args[2] == "T" and n.id in reach and not n.in_extent("_load") and not n.in_extent("_load_from_buffer")
                         and not n.in_extent("_save")]  # serialising the data in order to save it is not computing a change from it
                if rho == "root":
                    reads = [n for n in reads if not is_total_overwrite(n, entry_func)]
                if not reads:
                    rep.ok("C04.c", f"C04.c {g.label}: the cached data is only read after the load")
                else:
                    n = reads[0]
                    rep.fail("C04.c", norm_key("C04.c", entry_func.qualname, f"rho={rho}"),
                             f"{entry_func.qualname} reads the cached data (`{n.stmt}` in {n.func}) before loading the backend's current content and then writes a result computed from it: "
                             "changes made through other handles are reverted", g.witness(g.path(g.entry, [n.id], avoid=L)), g.label)
                descr = f"C04.a {g.label}: every path to a mutation of _data passes a completed load of the root"
                if not bad:
                    rep.ok("C04.a", descr)
                    continue
                n = bad[0]
                w = g.path(g.entry, [n.id], avoid=L)
                rep.fail(
                    "C04.a",
                    norm_key("C04.a", entry_func.qualname, f"rho={rho}"),
                    f"{entry_func.qualname} on a {rho} receiver mutates the tree (`{n.stmt}` in {n.func}) without first loading the root's current content; "
                    "the following save writes the stale rest of the tree over changes made through other handles",
                    g.witness(w), g.label,
                )


def check_context_flag(A, rep):
    """(d) a collection has ONE load-and-save context object per kind, shared by every operation and every thread
    that uses the collection.  The attribute its __enter__ tests to decide whether to load is therefore fixed at
    construction: a write context that is switched to 'do not load' for one operation also switches it off for a
    concurrent writer (and, when the restore is skipped by an exception, for every later operation), which then
    saves its stale tree over other handles' changes."""
    import ast
    allc = list(A.model.classes.values())
    # the write contexts: classes with __enter__/__exit__ whose __enter__ calls <collection>._load()
    def enters_with_load(c):
        for st in c.node.body:
            if isinstance(st, ast.FunctionDef) and st.name == "__enter__":
                return any(isinstance(x, ast.Call) and isinstance(x.func, ast.Attribute) and x.func.attr == "_load" for x in ast.walk(st))
        return False
    ctx_classes = {c for c in allc if enters_with_load(c)}
    if not ctx_classes:
        raise AnalysisError("anchor: no load-and-save context class found (a class whose __enter__ calls _load()); not decided")
    family = {c for c in allc if any(c is k or c.is_subclass_of(k.name) for k in ctx_classes)}
    flags = set()
    for c in family:
        for st in c.node.body:
            if isinstance(st, ast.FunctionDef) and st.name == "__enter__":
                for n in ast.walk(st):
                    if isinstance(n, ast.If):
                        loads = any(isinstance(x, ast.Call) and isinstance(x.func, ast.Attribute) and x.func.attr == "_load" for b_ in n.body for x in ast.walk(b_))
                        if loads:
                            for x in ast.walk(n.test):
                                if isinstance(x, ast.Attribute) and isinstance(x.value, ast.Name) and x.value.id == "self":
                                    flags.add(x.attr)
    if not flags:
        rep.ok("C04.d", "C04.d the write context's __enter__ loads unconditionally (no load flag)")
        return
    fam_names = {c.name for c in family}
    bad = []
    for f in A.model.functions:
        in_ctor = f.cls is not None and f.cls.name in fam_names and f.name == "__init__"
        for n in ast.walk(f.node):
            tg = []
            if isinstance(n, ast.Assign):
                tg = n.targets
            elif isinstance(n, (ast.AugAssign, ast.AnnAssign)):
                tg = [n.target]
            for t in tg:
                for x in ast.walk(t):
                    if isinstance(x, ast.Attribute) and x.attr in flags and isinstance(x.ctx, ast.Store):
                        own_self = isinstance(x.value, ast.Name) and x.value.id == "self"
                        if in_ctor and own_self:
                            continue
                        if own_self and (f.cls is None or f.cls.name not in fam_names):
                            continue  # an attribute of the same name on another kind of object
                        bad.append((f, n))
    if not bad:
        rep.ok("C04.d", f"C04.d the load flag ({', '.join(sorted(flags))}) of the shared write contexts is assigned only in their constructors")
    for f, n in bad:
        rep.fail("C04.d", norm_key("C04.d", f.qualname),
                 f"{f.qualname}: `{ast.unparse(n)}` changes the load flag of a write context after construction; the context object is shared by all operations and threads of the collection, so a concurrent or "
                 "later writer skips its load and saves a stale tree over other handles' changes", [f"{f.module.path}:{n.lineno}: {ast.unparse(n)}"], f.qualname)


def check_loaders(A, rep):
    check_context_flag(A, rep)
    seen = {}
    for cls in A.concrete():
        owner, v = A.model.lookup(cls, "_load_from_resource")
        if v is None:
            raise AnalysisError(f"anchor: {cls.name} has no _load_from_resource")
        seen.setdefault(v.func, cls)
    rep.floor("_load_from_resource implementations", len(seen), 4)
    for func, cls in seen.items():
        b, g = A.graph(cls, "_load_from_resource", "root", "none")
        rep.context(g.label, True)
        reads = [n.id for n in live(g) if is_res_read(n)]
        w = g.must_pass(g.entry, [g.exit], reads)
        if w is None and reads:
            rep.ok("C04.b", f"C04.b {func.qualname}: every normal path reads the resource ({len(reads)} read sinks)")
        else:
            rep.fail("C04.b", norm_key("C04.b", func.qualname), f"{func.qualname} can return without reading the backing resource (cached or constant data)", g.witness(w or []), g.label)
