"""C11 - forbidden data never gets in."""
import ast

from ..engine import *
from ..graph import Val, show
from ..classify import *
from ..report import norm_key
from ..model import ABC_MOD
from .. import AnalysisError

META = {
    "level": "other",
    "explanation": (
        "(a) Taint analysis on the inlined automaton of every mutating entry point (and the constructor) of every concrete class, root and nested receiver: every value stored into the "
        "tree that derives from a caller-supplied argument has, on every path to the store, passed the node's validators with an argument that structurally contains it (the _validate= "
        "keyword is constant-propagated). (b) every tag literal a validator compares against is a tag its resolver can produce (a dead validation branch otherwise). (c) each validator is "
        "abstracted to the capabilities it enforces (non-str-key / dotted-key / non-json-type) and the container kinds it descends through. (d) family agreement: data can enter a tree "
        "through either class of a registry bucket, so both classes of every bucket must enforce the same capabilities, each descending through mappings and sequences; non-str-key "
        "everywhere; dotted-key iff the bucket's dict class has attribute access; (f) every validator's classifier agrees with the conversion's classifiers on which representative types are mappings / "
        "sequences (a container the validator does not recognise is converted unchecked). Correctness of validators on all values beyond this structure is NOT decided."
    ),
    "rule": "contexts = class x storing entry point x {root,nested} (+ constructor); obligations per storing site; per tag literal; per bucket",
    "trusted_base": ["engine value provenance (symbolic expressions)", "representative-type table of the classifier evaluation"],
    "assumptions": [],
}

STORE_OPS = {"setitem", "append", "extend", "insert", "iadd", "update", "setdefault", "rebind", "__setitem__", "add"}


def units(A, tier):
    return [("class", c.name) for c in A.concrete()] + [("validators", None)]


def params_in(v):
    return {x.args[0] for x in v.walk() if x.kind == "param"}


def sink_value(n):
    vals = []
    if n["value"] is not None:
        vals.append(n["value"])
    for a in n["args"] or ():
        vals.append(a)
    return vals


def run_unit(A, unit, rep, tier):
    kind, name = unit
    if kind == "validators":
        return check_validators(A, rep)
    cls = A.model.find_class(name)
    eps = A.entry_points(cls)
    jobs = []
    for m in A.mutators(cls):
        for rho in ("root", "nested"):
            jobs.append((m, rho, A.graph(cls, m, rho, "none")[1], eps[m]))
    owner, init = A.model.lookup(cls, "__init__")
    for rho in ("root", "nested"):
        parent = Val("const", None) if rho == "root" else Val("inst", tuple(A.model.bucket_classes(cls)) or (cls,), "root", "P")
        g = A.graph(cls, "__init__", rho, "none", kwargs={"parent": parent}, opaque=())[1]
        jobs.append(("__init__", rho, g, init.func))
    n_sinks = 0
    for m, rho, g, f in jobs:
        lv = live(g)
        sinks = []
        for n in lv:
            if n.kind == "data_mut" and n["op"] in STORE_OPS and n["owner"].args[2] in ("T",) and not n.in_extent("_load"):
                if n["op"] == "rebind" and data_origin(n["value"]) is not None:
                    continue  # a slice / copy of elements the node already owns
                ps = set()
                for v in sink_value(n):
                    ps |= params_in(v)
                ps -= {"key", "index", "i"} if False else set()
                if ps:
                    sinks.append((n, ps))
        rep.context(g.label, bool(sinks))
        for n, ps in sinks:
            n_sinks += 1
            # index-like parameters are positions, not stored data
            stored = set()
            for v in ([n["value"]] if n["value"] is not None else list(n["args"] or ())[-1:]):
                stored |= params_in(v)
            if n["op"] == "insert" and n["args"]:
                stored = params_in(n["args"][-1])
            if n["op"] == "setitem" and n["index"] is not None:
                stored |= params_in(n["index"]) if A.is_list(cls) is False else set()
            if not stored:
                continue
            sanit = []
            for s in lv:
                if s.kind == "enter" and s["fname"] == "_validate":
                    got = set()
                    for v in s["args"].values():
                        if isinstance(v, Val):
                            got |= params_in(v)
                    if stored <= got:
                        sanit.append(s.id)
                elif s.kind == "call_pkg" and s["oneof"]:
                    pass
            w = g.must_pass(g.entry, [n.id], sanit)
            if w is None:
                rep.ok("C11.a", f"C11.a {g.label}: `{n.stmt}` stores argument data {sorted(stored)} only after validation")
            else:
                rep.fail("C11.a", norm_key("C11.a", f.qualname, n.func, n.stmt),
                         f"{f.qualname}: caller-supplied data ({', '.join(sorted(stored))}) reaches the store `{n.stmt}` in {n.func} on a path that has not validated it with this node's validators",
                         g.witness(w), g.label)
    rep.floor(f"argument-storing sites of {cls.name}", n_sinks, 8)


def check_validate_method(A, rep):
    """(e) _validate applies every validator of the class on every path."""
    seen = {}
    for cls in A.concrete():
        owner, v = A.model.lookup(cls, "_validate")
        if (A.model.lookup(cls, "_all_validators")[1] or ()):
            seen.setdefault(v.func, cls)
    for func, cls in seen.items():
        b, g = A.graph(cls, "_validate", "root", "none")
        rep.context(g.label, True)
        calls = [n.id for n in live(g) if n.kind == "call_pkg" and n.stack and own(n)]
        nvals = len(A.model.lookup(cls, "_all_validators")[1] or ())
        # the loop over the validators may not be by-passed (a loop body is modelled as 0..n iterations, so the
        # obligation is on its head)
        heads = [n.id for n in live(g) if n.kind == "join" and n["what"] == "loop-head" and own(n)
                 and any(c in g.reachable_from([y for (y, l) in g.succ[n.id]], avoid=[n.id]) for c in calls)]
        w = g.must_pass(g.entry, [g.exit], heads) if heads else [g.entry]
        called = {f.qualname for n in live(g) if n.kind == "call_pkg" for f in (n["funcs"] or ())}
        if w is None and len(called) >= nvals:
            rep.ok("C11.e", f"C11.e {func.qualname}: every path applies all {nvals} validators of the class")
        else:
            rep.fail("C11.e", norm_key("C11.e", func.qualname), f"{func.qualname} can return without having applied the class's validators to the data (e.g. a shortcut for arguments that are already synced collections)", g.witness(w or []), g.label)


def check_validators(A, rep):
    check_validate_method(A, rep)
    m = A.model
    rs = find_resolvers(m)
    vfuncs = {}
    for cls in A.concrete():
        owner, v = m.lookup(cls, "_all_validators")
        for f in v or ():
            vfuncs.setdefault(f, []).append(cls)
    infos = {}
    for f in vfuncs:
        info = analyse_validator(m, f, rs)
        infos[f] = info
        rep.context(f"validator {f.qualname}", True)
        if info.resolver is None:
            rep.undecided_note("C11.b", f"{f.qualname}: no resolver-based dispatch recognised")
            continue
        keys = [t for t, _ in info.resolver.tags]
        for lit, node in info.tag_literals:
            if lit in keys:
                rep.ok("C11.b", f"C11.b {f.qualname}: tag '{lit}' is produced by {info.resolver.name}")
            else:
                rep.fail("C11.b", norm_key("C11.b", f.qualname, lit),
                         f"{f.qualname} compares the classification with '{lit}', which {info.resolver.name} (tags {keys}) never returns: that validation branch is dead "
                         "and the validator does not descend into such values", [f"{f.module.path}:{node.lineno}: {ast.unparse(node.test)}"], f.qualname)
    # (f) what the conversion accepts as a mapping / sequence, every validator classifies the same way: a validator
    #     whose classifier does not see a container (e.g. only exact dict) never looks at its keys / elements,
    #     although _from_base converts it into a synced node.  Decided over all representative types; types the
    #     converters themselves classify both ways (Mapping and Sequence at once) are left undecided.
    conv = {}
    for r in rs:
        tags_ = [t for t, _ in r.tags]
        if tags_ == ["MAPPING"]:
            conv["MAPPING"] = r
        elif tags_ == ["SEQUENCE"]:
            conv["SEQUENCE"] = r
    if len(conv) < 2:
        raise AnalysisError("anchor: the converters' single-tag MAPPING / SEQUENCE resolvers were not found")
    vres = {}
    for f, info in infos.items():
        if info.resolver is not None:
            vres.setdefault(info.resolver.name, (info.resolver, []))[1].append(f)
    for t in REPS:
        cm = tag_of(m, conv["MAPPING"], t)
        cs_ = tag_of(m, conv["SEQUENCE"], t)
        if not (cm[1] and cs_[1]):
            continue  # instance dependent (numpy arrays): handled by the NUMPY tags of the validators
        kinds = [k for k, (tg, pure, _) in (("MAPPING", cm), ("SEQUENCE", cs_)) if tg == k]
        if len(kinds) != 1:
            continue
        want = kinds[0]
        for rn, (r, funcs) in sorted(vres.items()):
            if want not in [tg for tg, _ in r.tags]:
                continue
            tg, pure, poss = tag_of(m, r, t)
            rep.context(f"{rn} x {t}", True)
            if pure and tg == want:
                rep.ok("C11.f")
            else:
                rep.fail("C11.f", norm_key("C11.f", rn, t),
                         f"values of type '{t}' are converted into a synced {'dict' if want == 'MAPPING' else 'list'} (the conversion's classifier says {want}) but the classifier {rn} used by "
                         f"{', '.join(sorted(f_.qualname for f_ in funcs))} says {tg if pure else poss}: such a value passes validation without its {'keys' if want == 'MAPPING' else 'elements'} being looked at",
                         [f"{r.module.path}:{r.call.lineno}: {rn} = AbstractTypeResolver(...)"], rn)
    # (c)/(d) capabilities per class and per bucket
    for bucket, classes in sorted(m.registry.items()):
        rep.context(f"bucket {bucket}", True)
        caps_of = {}
        for cls in classes:
            owner, v = m.lookup(cls, "_all_validators")
            caps = {}
            for f in v or ():
                info = infos.get(f) or analyse_validator(m, f, rs)
                for c, desc in capabilities(m, info).items():
                    caps[c] = caps.get(c, set()) | desc
            caps_of[cls] = caps
        attr = any(c.is_subclass_of("AttrDict") for c in classes)
        contract = {"non-str-key"} | ({"dotted-key"} if attr else set())
        union = set()
        for c in caps_of.values():
            union |= set(c)
        want = contract | union
        for cls in classes:
            caps = caps_of[cls]
            for cap in sorted(want):
                desc = caps.get(cap)
                short = bucket.split(".")[-1]
                if desc is None:
                    rep.fail("C11.d", norm_key("C11.d", cls.name, cap, "missing"),
                             f"{cls.name} (registry bucket {short}) does not enforce '{cap}' although {'its family requires it' if cap in contract else 'the other class of its bucket does'}: "
                             f"forbidden data can enter the tree through a nested {'list' if A.is_list(cls) else 'dict'} of this class",
                             [f"{cls.module.path}:{cls.node.lineno}: class {cls.name}; _all_validators = {[f.name for f in (m.lookup(cls, '_all_validators')[1] or ())]}"], bucket)
                elif desc >= {"MAPPING", "SEQUENCE"}:
                    rep.ok("C11.d", f"C11.d {cls.name}: '{cap}' enforced, descending through mappings and sequences")
                else:
                    rep.fail("C11.d", norm_key("C11.d", cls.name, cap, "descend"),
                             f"{cls.name} (registry bucket {short}) enforces '{cap}' but its validators do not descend through {sorted({'MAPPING', 'SEQUENCE'} - desc)}: invalid items nested inside such containers are let in",
                             [], bucket)
