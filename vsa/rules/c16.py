"""C16 - values are copied in and out: ownership / escape analysis on _data."""
from ..engine import *
from ..graph import Val, show
from ..report import norm_key
from .. import AnalysisError

META = {
    "level": "other",
    "explanation": (
        "Ownership / escape analysis on the one field that holds user-visible structure, _data, over the automata of every mutating entry point, the constructor and the merge of every "
        "concrete class: (a) copy-in: no caller-supplied object is stored into the tree bare - every stored value is the result of the conversion routine (_from_base), a fresh display / "
        "comprehension of such results, the buffer entry, or built from the node's own data; (b) the conversion routine returns a newly constructed node of the bucket for containers "
        "and (a conversion of) the value itself otherwise; (c) copy-out: (), values() and items() return data that does not derive from the live container, and no public method returns "
        "the bare container; (d) removal uses the built-in operation (no second reference retained). Deep independence for user-defined container types whose iteration yields shared "
        "objects is NOT decided."
    ),
    "rule": "obligation = one storing site / one returning entry point per class and receiver kind",
    "trusted_base": ["engine value provenance (symbolic expressions)"],
    "assumptions": ["scalars are immutable (C11's type contract)"],
}

DETACHED_API = {"__call__", "values", "items"}


def units(A, tier):
    return [("class", c.name) for c in A.concrete()] + [("convert", None)]


def bare_params(v):
    """params reachable in v without passing through a conversion call."""
    out = set()
    st = [v]
    while st:
        x = st.pop()
        if not isinstance(x, Val):
            if isinstance(x, tuple):
                st.extend(x)
            continue
        if x.kind == "call" and isinstance(x.args[0], str) and (x.args[0].endswith("._from_base") or x.args[0] in ("len", "isinstance", "type", "id", "range", "min", "max")):
            continue
        if x.kind == "param":
            out.add(x.args[0])
            continue
        if x.kind in ("cmp", "cmpres", "not", "boolop"):
            continue
        if x.kind == "comp":
            # only the element expression is stored; the iterable is just walked;
            # keys of a dict comprehension are immutable strings (C11)
            elt = x.args[1]
            st.append(elt.args[1] if (x.args[0] == "dict" and elt.kind == "tuple" and len(elt.args) == 2) else elt)
            continue
        for a in x.args:
            st.append(a)
    return out


def run_unit(A, unit, rep, tier):
    kind, name = unit
    if kind == "convert":
        return check_convert(A, rep)
    cls = A.model.find_class(name)
    eps = A.entry_points(cls)
    graphs = []
    for m in A.mutators(cls):
        for rho in ("root", "nested"):
            graphs.append((eps[m], A.graph(cls, m, rho, "none")[1]))
    owner, init = A.model.lookup(cls, "__init__")
    graphs.append((init.func, A.graph(cls, "__init__", "root", "none", kwargs={"parent": Val("const", None)})[1]))
    owner, up = A.model.lookup(cls, "_update")
    graphs.append((up.func, A.graph(cls, "_update", "root", "none")[1]))
    n_sites = 0
    for f, g in graphs:
        stores = [n for n in live(g) if n.kind == "data_mut" and n["op"] in ("setitem", "append", "extend", "insert", "iadd", "update", "setdefault", "rebind", "add")]
        rep.context(g.label, bool(stores))
        for n in stores:
            vals = []
            if n["value"] is not None:
                vals.append(n["value"])
            elif n["args"]:
                vals.append(n["args"][-1])
            n_sites += 1
            bare = set()
            for v in vals:
                bare |= bare_params(v)
            if not bare:
                rep.ok("C16.a")
            else:
                rep.fail("C16.a", norm_key("C16.a", n.func, n.stmt),
                         f"{n.func}: `{n.stmt}` stores the caller's object ({', '.join(sorted(bare))}) into the tree without converting (copying) it: later mutation of the original changes the collection",
                         g.witness(g.path(g.entry, [n.id])), g.label)
    rep.floor(f"storing sites of {cls.name}", n_sites, 8)
    # (c) copy-out
    for m, f in sorted(eps.items()):
        for rho in ("root", "nested"):
            b, g = A.graph(cls, m, rho, "none")
            rv = g.nodes[g.exit]["ret"]
            if rv is None:
                continue
            alts = rv.args if rv.kind == "phi" else (rv,)
            bad = None
            for a in alts:
                inner = a.args[0] if a.kind == "gen" else a
                if inner.kind == "data":
                    bad = "returns the live underlying container itself"
                elif m in DETACHED_API and live_container(inner):
                    bad = "returns a view / value derived from the live container instead of detached plain data"
            rep.context(g.label, m in DETACHED_API)
            if bad is None:
                rep.ok("C16.c")
            else:
                rep.fail("C16.c", norm_key("C16.c", f.qualname), f"{f.qualname} {bad} (`{show(rv)[:80]}`): mutating the result changes the collection behind the library's back", [f.loc], g.label)
    # (e) an operation that stores (a copy of) an argument hands back the stored node, not the caller's own object
    for m in A.mutators(cls):
        f = eps[m]
        b, g = A.graph(cls, m, "root", "none")
        stored = set()
        for n in live(g):
            if n.kind == "data_mut" and n["op"] in ("setitem", "append", "insert", "setdefault") and n["value"] is not None:
                for x in n["value"].walk():
                    if x.kind == "call" and isinstance(x.args[0], str) and x.args[0].endswith("._from_base"):
                        for a_ in list(x.args[2]) + [v_ for _, v_ in x.args[3]]:
                            if isinstance(a_, Val) and a_.kind == "param":
                                stored.add(a_.args[0])
        for r in [n for n in live(g) if n.kind == "ret" and depth(n) == 1]:
            v = r["value"]
            alts = v.args if v.kind == "phi" else (v,)
            bad = [a_ for a_ in alts if a_.kind == "param" and a_.args[0] in stored]
            if bad:
                rep.fail("C16.e", norm_key("C16.e", f.qualname, r.stmt),
                         f"{f.qualname}: `{r.stmt}` returns the caller's own object `{bad[0].args[0]}` although a converted copy of it was stored in the collection: mutating the result changes neither the collection nor the backend",
                         [r.where() + ": " + r.stmt], g.label)
            else:
                rep.ok("C16.e")
    # (d) removal through the built-in operation
    for m in ("pop", "popitem", "__delitem__"):
        if m in eps and eps[m].module.name != "_collections_abc":
            b, g = A.graph(cls, m, "root", "none")
            rem = [n for n in live(g) if n.kind == "data_mut" and n["op"] in ("pop", "popitem", "delitem") and own(n)]
            if rem:
                rep.ok("C16.d", f"C16.d {eps[m].qualname}: removal through the built-in operation")
            else:
                rep.fail("C16.d", norm_key("C16.d", eps[m].qualname), f"{eps[m].qualname} no longer removes the element with the built-in operation", [], g.label)


def live_container(v):
    """The value is, or contains, the tree's underlying container itself (not merely elements taken out of it, and
    not the iterable a comprehension ran over: a comprehension builds a new container)."""
    if not isinstance(v, Val):
        return False
    if v.kind == "data":
        return True
    if v.kind in ("elem",):
        return False
    if v.kind == "sub" and isinstance(v.args[0], Val) and v.args[0].kind in ("data", "elem", "call"):
        return False
    if v.kind == "comp":
        return live_container(v.args[1])
    for a in v.args:
        if isinstance(a, Val) and live_container(a):
            return True
        if isinstance(a, tuple):
            for x in a:
                if isinstance(x, Val) and live_container(x):
                    return True
                if isinstance(x, tuple) and any(isinstance(y, Val) and live_container(y) for y in x):
                    return True
    return False


def check_to_base(A, rep):
    """(f) _to_base stores an element raw only if it is NOT a synced collection (by a classifier that
    recognises both synced dicts and synced lists), and converts it recursively otherwise."""
    import ast
    from ..classify import find_resolvers, tag_of
    rs = find_resolvers(A.model)
    seen = {}
    for cls in A.concrete():
        owner, v = A.model.lookup(cls, "_to_base")
        seen.setdefault(v.func, cls)
    for func, cls in seen.items():
        rep.context(f"{func.qualname} classifier", True)
        used = [r for r in rs if r.name in ast.unparse(func.node)]
        lits = [n.comparators[0].value for n in ast.walk(func.node) if isinstance(n, ast.Compare) and isinstance(n.comparators[0], ast.Constant) and isinstance(n.comparators[0].value, str)]
        if not used:
            # the classification may sit in a private predicate function: read it from the automaton instead
            b0, g0 = A.graph(cls, "_to_base", "root", "none")
            names0 = {n["resolver"].args[1] for n in live(g0) if n.kind == "classify" and own(n) and n["resolver"] is not None and n["resolver"].kind == "global"}
            used = [r for r in rs if r.name in names0]
            lits = []
            for n in live(g0):
                if n.kind == "branch" and own(n):
                    for x in n["cond"].walk():
                        if x.kind == "cmp" and x.args[0] == "==":
                            for a_, b_ in ((x.args[1], x.args[2]), (x.args[2], x.args[1])):
                                if a_.kind == "const" and isinstance(a_.args[0], str) and any(y.kind == "call" and y.args[0] == "get_type" for y in b_.walk()):
                                    lits.append(a_.args[0])
        ok = False
        if len(used) == 1 and lits:
            ok = all(tag_of(A.model, used[0], t)[0] == lits[0] for t in ("SyncedDict subclass", "SyncedList subclass")) and \
                 all(tag_of(A.model, used[0], t)[0] != lits[0] for t in ("str", "int", "float", "bool", "NoneType"))
        if not used:
            # equivalent idiom: a direct isinstance test against the common base class of all synced collections
            for n in ast.walk(func.node):
                if isinstance(n, ast.Call) and isinstance(n.func, ast.Name) and n.func.id == "isinstance" and len(n.args) == 2:
                    r_ = A.model.resolve_dotted(func.module, n.args[1]) if isinstance(n.args[1], (ast.Name, ast.Attribute)) else None
                    if r_ is not None and r_[0] == "class" and r_[1].name == "SyncedCollection":
                        ok = True
        # the converted copy is not chosen by truthiness: `conv or value` hands out the live node for an EMPTY child
        b, g = A.graph(cls, "_to_base", "root", "none")
        for n in live(g):
            if n.kind == "local_mut" and own(n) and n["value"] is not None:
                for x in n["value"].walk():
                    if x.kind == "boolop":
                        has_conv = any(y.kind == "call" and "_to_base" in str(y.args[0]) for y in x.walk())
                        has_raw = any(y.kind in ("elem", "sub") and any(z.kind == "data" for z in y.walk()) for y in x.walk())
                        if has_conv and has_raw:
                            ok = None
                            rep.fail("C16.f", norm_key("C16.f", func.qualname, "truthiness"),
                                     f"{func.qualname}: `{n.stmt}` chooses between the converted copy and the stored node by truthiness: an empty nested collection converts to an empty (falsy) container, so the live synced node itself is handed out in the 'plain' result",
                                     [n.where() + ": " + n.stmt], g.label)
        if ok is None:
            pass
        elif ok:
            rep.ok("C16.f", f"C16.f {func.qualname}: nested synced dicts and lists are both recognised (and converted), scalars are not")
        else:
            rep.fail("C16.f", norm_key("C16.f", func.qualname), f"{func.qualname} does not recognise every kind of nested synced collection with its classifier ({[r.name for r in used]} == {lits[:1]}): some nested nodes are handed out live inside the 'plain' result", [func.loc], cls.name)


def check_convert(A, rep):
    check_to_base(A, rep)
    seen = {}
    for cls in A.concrete():
        owner, v = A.model.lookup(cls, "_from_base")
        seen.setdefault(v.func, cls)
    for func, cls in seen.items():
        b, g = A.graph(cls, "_from_base", "root", "none", recv=Val("cls", (cls,)), opaque=("_from_base_never",))
        rep.context(g.label, True)
        # the interpreter treats _from_base as opaque when *called*; as an entry point it is inlined
        cons = [n for n in live(g) if n.kind == "construct"]
        good = [n for n in cons if dict(n["kwargs"]).get("data") is not None and dict(n["kwargs"]).get("data").kind == "param"]
        rv = g.nodes[g.exit]["ret"]
        alts = rv.args if rv.kind == "phi" else (rv,)
        returns_new = any(a.kind == "call" and a.args[0] == "construct" for a in alts)
        if good and returns_new:
            rep.ok("C16.b", f"C16.b {func.qualname}: containers are converted by constructing a new node of the bucket from the data")
        else:
            rep.fail("C16.b", norm_key("C16.b", func.qualname), f"{func.qualname} does not return a newly constructed node for container data", [], g.label)
        # a bare return of the argument is only allowed on the non-collection branch
        noncoll = [n.id for n in live(g) if n.kind == "arm" and n["arm"] is False and any(x.kind == "call" and x.args[0] == "get_type" and x.args[1] is not None and x.args[1].kind == "global" and "collection" in str(x.args[1].args[1]).lower() for x in g.nodes[n["branch"]]["cond"].walk())]
        coll_arms = [n.id for n in live(g) if n.kind == "arm" and n["arm"] is True and n["branch"] in {g.nodes[a]["branch"] for a in noncoll}]
        for r in [n for n in live(g) if n.kind == "ret" and depth(n) == 1]:
            v = r["value"]
            alts = v.args if v.kind == "phi" else (v,)
            if any(a.kind == "param" for a in alts):
                w = g.must_pass(g.entry, [r.id], noncoll) if noncoll else [g.entry, r.id]
                if w is not None:
                    rep.fail("C16.b", norm_key("C16.b", func.qualname, r.stmt),
                             f"{func.qualname}: `{r.stmt}` hands back the caller's object itself for data that may be a collection (e.g. an already synced node): it is stored without being copied / re-parented",
                             g.witness(w), g.label)
                else:
                    rep.ok("C16.b")
        novalidate = all(dict(n["kwargs"]).get("_validate") == Val("const", False) for n in good)
        if not novalidate:
            rep.undecided_note("C16.b", "conversion re-validates (performance only)")
