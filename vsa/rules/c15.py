"""C15 - buffer size accounting: paired deltas (inductive step of
size == sum of entry weights), capacity re-established, capacity stack."""
from ..engine import *
from ..graph import Val, show
from ..report import norm_key
from .. import AnalysisError
from .c17 import capacity_guard
from . import c07

META = {
    "level": "other",
    "explanation": (
        "The invariant size == sum over entries of weight(entry) (weight = len(contents) for the serialized strategy, 1-if-modified for shared memory) is maintained incrementally; it "
        "holds at quiescent points by induction if every path that changes the weighted entry set changes the counter by the same amount. The checker discharges the inductive step per "
        "site on the automata of _save_to_buffer, _load_from_buffer, _initialize_data_in_buffer and _flush (both strategies, dict and list classes, force on/off): (a) every insert / "
        "contents rewrite / delete / modified-flag flip of a buffer entry is paired on all paths with a counter update of the matching sign and operand, and every counter update is paired "
        "with such a change; (b) after every increase a capacity test whose true arm force-flushes follows before the operation returns, and lowering the capacity flushes; (d) the capacity "
        "stack of the backend-wide context is popped on every exit and an __enter__ that raises leaves neither the counter incremented nor a pushed element (shared with C07.d); (g) tests that decide whether a capacity is installed / restored compare with None (0 is a capacity). Races on the counter are C13."
    ),
    "rule": "obligation = one weight-changing site or one counter update in one implementation x strategy x class kind x force flag",
    "trusted_base": ["engine value provenance and CFG", "weight function of each strategy as stated in the property"],
    "assumptions": ["sequential execution (races are C13)"],
}


def units(A, tier):
    return [("pairing", None), ("capacity", None), ("stack", None)]


def is_size_upd(n):
    return n.kind == "cs_write" and n["name"] == "_CURRENT_BUFFER_SIZE" and n["op"] == "aug"


def entry_write(n):
    """Classify writes to the buffer: insert / contents / modified / delete."""
    if n.kind != "cs_write" or n["name"] != "_buffer":
        return None
    t = n["target"]
    if n["op"] == "setitem":
        if t.kind == "cattr":
            return "insert"
        idx = n["index"]
        if idx is not None and idx.kind == "const" and idx.args[0] in ("contents", "modified"):
            return idx.args[0]
        return "field"
    if n["op"] == "delitem" and t.kind == "cattr":
        return "delete"
    return None


def has_len_of_contents(v, also=None):
    for x in v.walk():
        if x.kind == "call" and x.args[0] == "len" and x.args[2]:
            a = x.args[2][0]
            if also is not None and a == also:
                return True
            if any(y.kind == "sub" and y.args[1] == Val("const", "contents") for y in a.walk()):
                return True
    return False


def dict_field(v, name):
    if v.kind == "dict":
        for k, x in v.args:
            if k == Val("const", name):
                return x
    return None


def run_unit(A, unit, rep, tier):
    kind, _ = unit
    if kind == "pairing":
        return check_pairing(A, rep)
    if kind == "capacity":
        return check_capacity(A, rep)
    c07.check_context(A, _Rename(rep))
    check_capacity_tests(A, rep)


def check_capacity_tests(A, rep):
    """(g) 0 is a capacity: a test that decides whether a temporary capacity is installed or the saved one restored
    must separate None ("no capacity given") from every number; a truthiness test treats buffer_backend(0) like
    buffer_backend() (data stays buffered above the requested bound) and never restores a saved capacity of 0."""
    import ast
    from ..graph import Val as _V
    done = set()
    n_tests = 0
    for cls in A.concrete():
        if not cls.is_subclass_of("FileBufferedCollection"):
            continue
        b, g = A.ctx_exit_graph(cls, "backend", 0, 0, method="__enter__")
        cmcls = next((n["recv"].args[0] for n in live(g) if n.kind == "enter" and n["fname"] == "__enter__" and n["recv"] is not None and n["recv"].kind == "obj"), None)
        if cmcls is None:
            raise AnalysisError(f"anchor: backend-wide buffering context of {cls.name} not found")
        chain = [cmcls] + [c for c in A.model.classes.values() if cmcls.is_subclass_of(c.name) and c is not cmcls]
        for c in chain:
            if c.qualname in done:
                continue
            done.add(c.qualname)
            for st in c.node.body:
                if not isinstance(st, ast.FunctionDef):
                    continue  # every method of the context class: the steps may live in private helpers
                for n in ast.walk(st):
                    if isinstance(n, (ast.If, ast.IfExp)):
                        arms = (n.body if isinstance(n.body, list) else [n.body]) + (n.orelse if isinstance(n.orelse, list) else [n.orelse])
                        guards = any(isinstance(x, ast.Call) and isinstance(x.func, ast.Attribute) and x.func.attr == "set_buffer_capacity" for a in arms for x in ast.walk(a))
                        if not guards:
                            continue
                        n_tests += 1
                        t = n.test
                        while isinstance(t, ast.UnaryOp) and isinstance(t.op, ast.Not):
                            t = t.operand
                        where = f"{c.name}.{st.name}"
                        if isinstance(t, ast.Compare) and len(t.ops) == 1 and isinstance(t.ops[0], (ast.Is, ast.IsNot, ast.Eq, ast.NotEq)) \
                                and any(isinstance(x, ast.Constant) and x.value is None for x in (t.left, t.comparators[0])):
                            rep.ok("C15.g", f"C15.g {where}: `{ast.unparse(n.test)}` separates 'no capacity' (None) from every number")
                        elif isinstance(t, (ast.Name, ast.Attribute, ast.Call, ast.Subscript, ast.NamedExpr)):
                            rep.fail("C15.g", norm_key("C15.g", where, "truthiness"),
                                     f"{where}: `{ast.unparse(n.test)}` decides by truthiness whether a capacity is installed / restored; a capacity of 0 is treated like 'none given': buffer_backend(0) keeps data "
                                     "buffered above the requested bound and a saved capacity of 0 is never restored", [f"{c.module.path}:{n.lineno}: if {ast.unparse(n.test)}"], where)
                        else:
                            rep.ok("C15.g", f"C15.g {where}: `{ast.unparse(n.test)}` - form not recognised, not decided")
    rep.floor("capacity install/restore tests", n_tests, 1)


class _Rename:
    """Re-labels the shared C07.d obligations as C15.d."""

    def __init__(self, rep):
        self.rep = rep

    def ok(self, rule, descr=None, sample=False):
        self.rep.ok("C15.d", (descr or "").replace("C07.d", "C15.d"))

    def fail(self, rule, key, message, witness=None, context=None):
        self.rep.fail("C15.d", key.replace("C07.d", "C15.d"), message, witness, context)

    def context(self, *a, **k):
        self.rep.context(*a, **k)


def strategies(A):
    out = []
    for base, kind in (("SerializedFileBufferedCollection", "bytes"), ("SharedMemoryFileBufferedCollection", "count")):
        classes = [c for c in A.concrete() if c.is_subclass_of(base)]
        d = next((c for c in classes if not A.is_list(c)), None)
        l = next((c for c in classes if A.is_list(c)), None)
        if d is None or l is None:
            raise AnalysisError(f"instance floor: no dict+list classes for strategy {base}")
        out.append((kind, [d, l]))
    return out


def graphs_for(A, cls):
    gs = []
    for m in ("_save_to_buffer", "_load_from_buffer"):
        gs.append((m, A.graph(cls, m, "root", "obj")[1]))
    for force in (False, True):
        gs.append((f"_flush(force={force})", A.graph(cls, "_flush", "root", "none", args=[Val("const", force)])[1]))
    return gs


def check_pairing(A, rep):
    n_sites = 0
    for kind, classes in strategies(A):
        for cls in classes:
            for label, g in graphs_for(A, cls):
                rep.context(g.label + ":" + label, True)
                lv = [n for n in live(g) if not (n.in_extent("_flush_buffer") and not label.startswith("_flush"))]
                S = [n for n in lv if is_size_upd(n)]
                W = [(n, entry_write(n)) for n in lv if entry_write(n) in ("insert", "contents", "modified", "delete")]
                matched_S = set()
                for n, ek in W:
                    n_sites += 1
                    need = None  # (sign, description)
                    if kind == "bytes":
                        if ek == "insert":
                            need = "Add"
                        elif ek == "contents":
                            need = "Add"
                        elif ek == "delete":
                            need = "Sub"
                        else:
                            continue
                    else:
                        if ek == "insert":
                            mod = dict_field(n["value"], "modified")
                            if mod is None or mod.kind != "const":
                                rep.undecided_note("C15.a", f"{n.func}: inserted entry's 'modified' is not a constant on this path")
                                continue
                            need = "Add" if mod.args[0] else None
                        elif ek == "modified":
                            v = n["value"]
                            if v.kind != "const":
                                continue
                            need = "Add" if v.args[0] else "Sub"
                        elif ek == "delete":
                            need = "SubIfModified"
                        else:
                            continue
                    if need is None:
                        rep.ok("C15.a", f"C15.a [{kind}] {n.func}: `{n.stmt}` inserts an unmodified entry (weight 0), no counter change needed")
                        continue
                    sign = "Sub" if need.startswith("Sub") else "Add"
                    cands = [s for s in S if s["augop"] == sign]
                    ok = False
                    why = "no counter update of the matching sign on the same paths"
                    for s in cands:
                        nsucc = [y for (y, l) in g.succ[n.id] if l != "e"]
                        after = all(g.must_pass(y, [g.exit] + ([g.exc_exit] if ek == "delete" else []), [s.id]) is None for y in nsucc)
                        before = g.must_pass(g.entry, [n.id], [s.id]) is None
                        if need == "SubIfModified" or (kind == "count" and ek == "modified" and sign == "Sub"):
                            # the decrement is conditional on the entry being modified; it must sit under that guard and precede / follow the removal
                            guard_arms = [a.id for a in lv if a.kind == "arm" and a["arm"] is True and _is_modified_test(g.nodes[a["branch"]]["cond"])]
                            under = g.must_pass(g.entry, [s.id], guard_arms) is None
                            rel = g.path(s.id, [n.id]) is not None or g.path(n.id, [s.id]) is not None
                            if under and rel:
                                ok = True
                                matched_S.add(s.id)
                                break
                            why = "the decrement is not under the entry's modified-condition"
                            continue
                        if not (after or before):
                            continue
                        opnd = s["value"]
                        if kind == "bytes":
                            if ek == "insert":
                                stored = dict_field(n["value"], "contents")
                                good = has_len_of_contents(opnd, stored)
                            elif ek == "contents":
                                good = before and opnd.kind == "bin" and opnd.args[0] == "Sub" and _len_of(opnd.args[1], n["value"]) and has_len_of_contents(opnd.args[2])
                                if not good:
                                    why = "the counter is not changed by len(new contents) - len(old contents) before the old contents are replaced"
                            else:
                                good = has_len_of_contents(opnd)
                        else:
                            good = opnd == Val("const", 1)
                            if ek == "modified" and sign == "Add":
                                arms = [a.id for a in lv if a.kind == "arm" and _is_not_modified_arm(g, a)]
                                good = good and g.must_pass(g.entry, [n.id], arms) is None and g.must_pass(g.entry, [s.id], arms) is None
                                if not good:
                                    why = "the flag flip and its +1 are not under the 'not yet modified' test (double counting)"
                        if good:
                            ok = True
                            matched_S.add(s.id)
                            break
                        elif why.startswith("no counter"):
                            why = f"the counter update `{s.stmt}` does not use the weight of the entry ({'len of its contents' if kind == 'bytes' else '1'})"
                    if ok:
                        rep.ok("C15.a", f"C15.a [{kind}] {n.func}: `{n.stmt}` ({ek}) is paired with a counter update on all paths")
                    else:
                        rep.fail("C15.a", norm_key("C15.a", kind, n.func, n.stmt, ek),
                                 f"[{kind} strategy] {n.func}: the buffer change `{n.stmt}` ({ek}) is not matched by an equal change of the size counter: {why}",
                                 g.witness(g.path(g.entry, [n.id])), g.label + ":" + label)
                for s in S:
                    if s.id in matched_S:
                        rep.ok("C15.a")
                    else:
                        rep.fail("C15.a", norm_key("C15.a", kind, s.func, s.stmt, "orphan"),
                                 f"[{kind} strategy] {s.func}: the counter update `{s.stmt}` is not matched by a change of the buffered entries of equal weight on the same paths",
                                 g.witness(g.path(g.entry, [s.id])), g.label + ":" + label)
    rep.floor("weight-changing buffer sites", n_sites, 9)


def _len_of(v, what):
    return v.kind == "call" and v.args[0] == "len" and v.args[2] and v.args[2][0] == what


def _is_modified_test(cond):
    c = cond
    if c.kind == "sub" and c.args[1] == Val("const", "modified"):
        return True
    return False


def _is_not_modified_arm(g, a):
    c = g.nodes[a["branch"]]["cond"]
    if c.kind == "not" and _is_modified_test(c.args[0]):
        return a["arm"] is True
    if _is_modified_test(c):
        return a["arm"] is False
    return False


def check_capacity(A, rep):
    for kind, classes in strategies(A):
        for cls in classes[:1]:
            for m in ("_save_to_buffer", "_load_from_buffer"):
                b, g = A.graph(cls, m, "root", "obj")
                rep.context(g.label, True)
                lv = [n for n in live(g) if not n.in_extent("_flush_buffer")]
                adds = [n for n in lv if is_size_upd(n) and n["augop"] == "Add"]
                flush_arms = []
                for a in live(g):
                    if a.kind == "arm" and a["arm"] is True and capacity_guard(g.nodes[a["branch"]]):
                        r = g.reachable_from([a.id])
                        if any(is_enter(g.nodes[i], "_flush_buffer") and g.nodes[i]["args"].get("force") == Val("const", True) for i in r):
                            flush_arms.append(a["branch"])
                for n in adds:
                    w = g.must_pass(n.id, [g.exit], flush_arms)
                    f = A.model.lookup(cls, m)[1].func
                    if w is None and flush_arms:
                        rep.ok("C15.b", f"C15.b [{kind}] {g.label}: after `{n.stmt}` a capacity test with a forced flush follows before return")
                    else:
                        rep.fail("C15.b", norm_key("C15.b", kind, f.qualname, n.func, n.stmt),
                                 f"[{kind} strategy] {f.qualname}: the size is increased (`{n.stmt}` in {n.func}) and the operation can return without testing it against the capacity: the reported size can exceed the capacity",
                                 g.witness(w or []), g.label)
            # set_buffer_capacity flushes when lowering below the current size
            owner, v = A.model.lookup(cls, "set_buffer_capacity")
            if v is None:
                raise AnalysisError("anchor: set_buffer_capacity not found")
            b, g = A.graph(cls, "set_buffer_capacity", "root", "none", recv=Val("cls", (cls,)))
            rep.context(g.label, True)
            ok = False
            for a in live(g):
                if a.kind == "arm" and a["arm"] is True:
                    c = g.nodes[a["branch"]]["cond"]
                    names = {x.args[1] for x in c.walk() if x.kind == "cattr"}
                    if "_CURRENT_BUFFER_SIZE" in names and any(x.kind == "param" for x in c.walk()):
                        r = g.reachable_from([a.id])
                        if any(is_enter(g.nodes[i], "_flush_buffer") and g.nodes[i]["args"].get("force") == Val("const", True) for i in r):
                            ok = True
            stores = [n for n in live(g) if n.kind == "cs_write" and n["name"] == "_BUFFER_CAPACITY" and n["op"] == "rebind" and n["value"].kind == "param"]
            # who-may-write: the capacity is changed only by set_buffer_capacity (which enforces it) and at class creation
            import ast as _ast
            stray = []
            for fn in A.model.functions:
                if fn.name in ("set_buffer_capacity", "__init_subclass__"):
                    continue
                for x in _ast.walk(fn.node):
                    tgts = x.targets if isinstance(x, _ast.Assign) else [x.target] if isinstance(x, (_ast.AugAssign, _ast.AnnAssign)) else []
                    for t_ in tgts:
                        if isinstance(t_, _ast.Attribute) and t_.attr == "_BUFFER_CAPACITY":
                            stray.append((fn, x))
            for fn, x in stray:
                rep.fail("C15.b", norm_key("C15.b", fn.qualname, "direct-capacity-store"),
                         f"{fn.qualname}: `{_ast.unparse(x)[:80]}` changes the buffer capacity without going through set_buffer_capacity, so a capacity below the current buffer size is not enforced (no flush): the size stays above the capacity until some later operation happens to check it",
                         [f"{fn.module.path}:{x.lineno}"], fn.qualname)
            if ok and stores:
                rep.ok("C15.b", f"C15.b [{kind}] set_buffer_capacity stores the new capacity and flushes when it is below the current size; nothing else writes the capacity")
            else:
                rep.fail("C15.b", norm_key("C15.b", kind, v.func.qualname), f"{v.func.qualname} no longer stores the capacity or no longer flushes when the new capacity is below the current size", [], g.label)
