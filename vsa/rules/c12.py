"""C12 - every JSON value is accepted (structural induction from a type
table); writer's and reader's tables agree; codec neutrality."""
import ast

from ..engine import *
from ..classify import *
from ..report import norm_key
from ..model import ABC_MOD, dotted
from .. import AnalysisError

META = {
    "level": "other",
    "explanation": (
        "Acceptance half of the property, by structural induction: (a) for every validator of every concrete class and every JSON node type (str, int, float, bool, None, dict, list) the "
        "abstractly evaluated classifier puts the type into a branch that returns or recurses on the children and rejects only on key conditions (non-str, and dotted keys in the "
        "attribute families - the documented deviation); since every validator recurses structurally, acceptance of all JSON values follows. (b) the conversion table agrees with the "
        "validation table: dict -> the bucket's mapping class, list -> its sequence class, scalars stored unchanged, and the MAPPING / SEQUENCE predicates of validators and converters "
        "agree on every JSON type. (c) codec neutrality: json.dumps / json.loads on the save / load / buffer paths pass no value-altering hooks and encode/decode use the default codec. "
        "Equality and leaf types after a round trip through the json module are NOT decided."
    ),
    "rule": "obligation = (validator, JSON type) for (a); (resolver pair, JSON type) for (b); one per json call site for (c)",
    "trusted_base": ["representative-type table of the classifier evaluation", "stdlib json round-trips JSON values (not decided here)"],
    "assumptions": [],
}

ALTERING = {"parse_float", "parse_int", "parse_constant", "object_hook", "object_pairs_hook", "default", "skipkeys", "ensure_ascii", "allow_nan", "sort_keys", "separators", "indent"}
HARMLESS = {"sort_keys", "separators", "indent", "ensure_ascii", "allow_nan"}


def units(A, tier):
    return [("all", None)]


def run_unit(A, unit, rep, tier):
    m = A.model
    rs = find_resolvers(m)
    vfuncs = {}
    for cls in A.concrete():
        owner, v = m.lookup(cls, "_all_validators")
        for f in v or ():
            vfuncs.setdefault(f, []).append(cls)
    rep.floor("validators in use", len(vfuncs), 3)
    for f, classes in vfuncs.items():
        info = analyse_validator(m, f, rs)
        if info.resolver is None:
            rep.undecided_note("C12.a", f"{f.qualname}: dispatch not recognised")
            continue
        live_lits = {lit for lit, _ in info.tag_literals}
        for t in JSON_TYPES:
            tag, pure, poss = tag_of(m, info.resolver, t)
            rep.context(f"{f.qualname} x {t}", True)
            branch = tag if (tag in live_lits) else ("<else>" if "<else>" in info.branches else None)
            b = info.branches.get(branch) if branch else None
            reject = None
            if not pure:
                reject = f"classification of {t} depends on the instance"
            elif b is not None:
                for exc, guards in b["raises"]:
                    keycond = [g for g in guards if g in ("non-str", "dot")]
                    if not keycond:
                        reject = f"the branch for tag {tag!r} raises {exc} unconditionally"
                if t in ("dict", "list") and tag in ("MAPPING", "SEQUENCE") and not b["recurses"]:
                    pass
            if reject is None:
                rep.ok("C12.a", f"C12.a {f.qualname}: a {t} is classified {tag!r} and accepted (children validated recursively / key conditions only)")
            else:
                rep.fail("C12.a", norm_key("C12.a", f.qualname, t), f"{f.qualname} rejects JSON values of type {t}: {reject}", [f.loc], f.qualname)
    # (b) conversion table
    byname = {r.name: r for r in rs}
    for cls in A.concrete():
        owner, ib = m.lookup(cls, "is_base_type")
        src = ast.unparse(ib.func.node)
        used = [r for r in rs if r.name in src]
        if len(used) != 1:
            rep.undecided_note("C12.b", f"{ib.func.qualname}: resolver not recognised")
            continue
        r = used[0]
        lit = None
        for n in ast.walk(ib.func.node):
            if isinstance(n, ast.Compare) and isinstance(n.comparators[0], ast.Constant):
                lit = n.comparators[0].value
        # a synced node of the same kind (and tuples for lists) must be accepted too, so that assigning
        # a synced collection stores a converted copy instead of the object itself
        for t in (("list", "tuple", "SyncedList subclass") if A.is_list(cls) else ("dict", "SyncedDict subclass")):
            tag, pure, poss = tag_of(m, r, t)
            if pure and tag == lit:
                rep.ok("C12.b")
            elif t not in JSON_TYPES:
                rep.fail("C12.b", norm_key("C12.b", ib.func.qualname, t), f"{ib.func.qualname}: a value of type '{t}' is not recognised as convertible to a {'list' if A.is_list(cls) else 'dict'}-like synced node (classified {poss}): it would be stored as-is, aliasing the original", [ib.func.loc], cls.name)
        # the merge (_update) must accept exactly what the conversion accepts
        owner_u, up = m.lookup(cls, "_update")
        usrc = ast.unparse(up.func.node)
        uses_same = r.name in usrc and any(isinstance(n, ast.Compare) and isinstance(n.comparators[0], ast.Constant) and n.comparators[0].value == lit and r.name in ast.unparse(n.left) for n in ast.walk(up.func.node))
        others = [n for n in ast.walk(up.func.node) if isinstance(n, ast.If) and "isinstance" in ast.unparse(n.test) and ("Sequence" in ast.unparse(n.test) or "Mapping" in ast.unparse(n.test))]
        via_ibt = any(isinstance(n, ast.Call) and isinstance(n.func, ast.Attribute) and n.func.attr == "is_base_type" for n in ast.walk(up.func.node))
        if (uses_same or via_ibt) and not others:
            rep.ok("C12.e", f"C12.e {up.func.qualname}: the merge accepts exactly the values {ib.func.qualname} converts")
        else:
            rep.fail("C12.e", norm_key("C12.e", up.func.qualname), f"{up.func.qualname} decides with its own type test (not {r.name} == {lit!r}) whether data can be merged: values the conversion treats as scalars (e.g. str) are merged element-wise, or convertible ones are rejected", [up.func.loc], cls.name)
        for t in JSON_TYPES:
            tag, pure, poss = tag_of(m, r, t)
            want = (t == "list") if A.is_list(cls) else (t == "dict")
            got = pure and tag == lit
            rep.context(f"{cls.name}.is_base_type x {t}", True)
            if got == want and pure:
                rep.ok("C12.b")
            else:
                rep.fail("C12.b", norm_key("C12.b", ib.func.qualname, t), f"{ib.func.qualname}: a {t} is {'not ' if want else ''}converted to a {'list' if A.is_list(cls) else 'dict'}-like synced node "
                         f"(classified {poss})", [ib.func.loc], cls.name)
    # writer's and reader's MAPPING / SEQUENCE predicates agree on JSON types
    for tagname in ("MAPPING", "SEQUENCE"):
        preds = [(r, lam) for r in rs for (tg, lam) in r.tags if tg == tagname]
        for t in JSON_TYPES:
            vals = {eval_pred(m, r.module, lam, t, {}) for r, lam in preds}
            if len(vals) == 1:
                rep.ok("C12.b", f"C12.b all {len(preds)} {tagname} predicates agree on {t}")
            else:
                rep.fail("C12.b", norm_key("C12.b", tagname, t), f"the {tagname} predicates of validators and converters disagree on values of type {t}: {sorted(vals)}", [], tagname)
    # (d) the merge must not treat equal values of different JSON types (1, 1.0, true) as "unchanged"
    from ..graph import Val
    seen_up = {}
    for cls in A.concrete():
        owner, v = m.lookup(cls, "_update")
        seen_up.setdefault(v.func, cls)
    for func, cls in seen_up.items():
        b_, g = A.graph(cls, "_update", "root", "none")
        rep.context(g.label, True)
        n_short = 0
        for n in live(g):
            if n.kind != "branch" or not own(n):
                continue
            c = n["cond"]
            parts = list(c.args[1:]) if (c.kind == "boolop" and c.args[0] == "and") else [c]
            def is_value_eq(p):
                if p.kind not in ("cmp", "cmpres") or p.args[0] != "==":
                    return False
                a, b = p.args[1], p.args[2]
                from ..interp_expr import data_origin
                da, db = data_origin(a) is not None, data_origin(b) is not None
                pa = any(x.kind == "param" for x in a.walk()) and not da
                pb = any(x.kind == "param" for x in b.walk()) and not db
                return (da and pb) or (db and pa)

            eqs = [p for p in parts if is_value_eq(p)]
            if not eqs:
                continue
            n_short += 1
            typed = any(p.kind == "cmp" and p.args[0] in ("is", "==") and all(x.kind == "call" and x.args[0] == "type" for x in p.args[1:3]) for p in parts)
            if typed:
                rep.ok("C12.d", f"C12.d {func.qualname}: the 'unchanged' shortcut `{n.stmt}` also compares the types")
            else:
                rep.fail("C12.d", norm_key("C12.d", func.qualname, n.stmt),
                         f"{func.qualname}: `{n.stmt}` skips values that compare equal without comparing their types: replacing 1 by True or 1.0 (update / reset / reload) keeps the old leaf, so the stored JSON type differs from what was written",
                         [n.where() + ": " + n.stmt], g.label)
        if n_short == 0:
            rep.undecided_note("C12.d", f"{func.qualname}: no equality shortcut recognised")
    # (c) codec neutrality
    n_sites = 0
    for f in m.functions:
        if f.module.name == ABC_MOD:
            continue
        for n in ast.walk(f.node):
            if not isinstance(n, ast.Call):
                continue
            r = m.resolve_dotted(f.module, n.func) if isinstance(n.func, (ast.Name, ast.Attribute)) else None
            name = r[1] if r is not None and r[0] == "ext" else None
            if name in ("json.dumps", "json.loads", "json.dump", "json.load"):
                n_sites += 1
                bad = [k.arg for k in n.keywords if k.arg in ALTERING and k.arg not in HARMLESS]
                cls_kw = [k for k in n.keywords if k.arg == "cls"]
                for k in cls_kw:
                    rr = m.resolve_dotted(f.module, k.value)
                    if not (rr is not None and rr[0] == "class" and rr[1].name == "SyncedCollectionJSONEncoder"):
                        bad.append("cls=" + ast.unparse(k.value))
                if bad:
                    rep.fail("C12.c", norm_key("C12.c", f.qualname, ast.unparse(n)[:80]), f"{f.qualname}: `{ast.unparse(n)[:80]}` passes value-altering codec options {bad}", [f"{f.module.path}:{n.lineno}"], f.qualname)
                else:
                    rep.ok("C12.c", f"C12.c {f.qualname}: `{ast.unparse(n)[:60]}` uses no value-altering hook")
            if isinstance(n.func, ast.Attribute) and n.func.attr in ("encode", "decode") and (n.args or n.keywords):
                rep.fail("C12.c", norm_key("C12.c", f.qualname, ast.unparse(n)[:80]), f"{f.qualname}: `{ast.unparse(n)[:80]}` uses a non-default codec", [f"{f.module.path}:{n.lineno}"], f.qualname)
    rep.floor("json call sites", n_sites, 5)
    # the encoder's default hook only unwraps synced nodes / numpy (checked in C01.d)
