"""C01 - write-through: every mutation is saved by the root before the
mutator returns (DESIGN 3, C01.a-d)."""
from ..engine import *
from ..graph import Val, show
from ..report import norm_key
from .. import AnalysisError

META = {
    "level": "other",
    "explanation": (
        "Save discipline decided on all control-flow paths (incl. exceptional) of every public mutator of every concrete class, "
        "for root and nested receivers and every buffering mode, on the context-sensitively inlined effect automaton: "
        "after each mutation of the tree's data every path to a normal return completes a save on the root at suspend depth 0 "
        "(C01.a); _save delegates to the root / dispatches on buffering (C01.b); each backend writer always reaches a write "
        "sink whose payload is the whole tree (C01.c); _to_base stores one entry per element and recurses (C01.d). An error raised by a write sink of a backend writer propagates to the caller: no path from the sink's exceptional edge to the normal return (C01.f). "
        "Equality of the stored content with built-in dict/list semantics is value-level and NOT decided."
    ),
    "rule": "contexts = concrete class x public mutator (from MRO incl. collections.abc mixins) x {root,nested} x buffering mode; non-trivial = automaton contains a user mutation of _data",
    "trusted_base": ["Python semantics of with/try/MRO as modelled by the engine", "stub table of external write sinks (open/os.replace/handle methods)"],
    "assumptions": ["ON_WINDOWS evaluated as False (POSIX)"],
}


def units(A, tier):
    return [("class", c.name) for c in A.concrete()] + [("backends", None)]


def committed_saves(g, mu):
    fname = "_save_to_resource" if mu == "none" else "_save_to_buffer"
    return [n.id for n in live(g) if is_leave(n, fname) and recv_is_root_T(n)]


def run_unit(A, unit, rep, tier):
    kind, name = unit
    if kind == "class":
        cls = A.model.find_class(name)
        check_class(A, cls, rep)
    else:
        check_backends(A, rep)


def check_class(A, cls, rep):
    muts = A.mutators(cls)
    rep.floor(f"mutators of {cls.name}", len(muts), 11 if A.is_list(cls) else 8)
    for m in muts:
        for rho in ("root", "nested"):
            for mu in A.modes(cls):
                b, g = A.graph(cls, m, rho, mu)
                um = [n for n in live(g) if is_user_mut(n)]
                rep.context(g.label, bool(um))
                saves = committed_saves(g, mu)
                for u in um:
                    w = g.must_pass(u.id, [g.exit], saves)
                    descr = f"C01.a {g.label}: mutation `{u.stmt}` in {u.func} is followed by a root save on every normal path"
                    if w is None:
                        rep.ok("C01.a", descr)
                    else:
                        rep.fail(
                            "C01.a",
                            norm_key("C01.a", u.func, u.stmt, f"rho={rho}", f"mu={'none' if mu == 'none' else 'buffered'}"),
                            f"mutation `{u.stmt}` in {u.func} can reach a normal return without a completed save of the root "
                            f"({'_save_to_resource' if mu == 'none' else '_save_to_buffer'})",
                            g.witness(w), g.label,
                        )
    # C01.e: once the tree was mutated, an exceptional way out still attempts the save (a half-applied bulk
    #        operation must not leave memory / the shared buffer ahead of the backend)
    for m in muts:
        for rho in ("root",):
            for mu in A.modes(cls):
                b, g = A.graph(cls, m, rho, mu)
                um = [n for n in live(g) if is_user_mut(n)]
                attempts = [n.id for n in live(g) if n.kind == "enter" and n["fname"] == "_save" and n["recv"] is not None and n["recv"].kind == "inst" and n["recv"].args[2] == "T"]
                bad = None
                for u in um:
                    succ = [y for (y, l) in g.succ[u.id] if l != "e"]
                    for y in succ:
                        w = g.path(y, [g.exc_exit], avoid=attempts)
                        if w is not None:
                            bad = (u, w)
                            break
                    if bad:
                        break
                if bad is None:
                    rep.ok("C01.e", f"C01.e {g.label}: after a mutation every exceptional exit still goes through the save")
                else:
                    u, w = bad
                    rep.fail("C01.e", norm_key("C01.e", u.func, u.stmt, f"mu={'none' if mu == 'none' else 'buffered'}"),
                             f"after `{u.stmt}` in {u.func} changed the data, an exception can leave the operation without attempting the save: memory (and a shared buffer entry) keep a change the backend never gets",
                             g.witness(w), g.label)
    # C01.b: every _save implementation delegates / dispatches
    owner, sv = A.model.lookup(cls, "_save")
    if sv is None:
        raise AnalysisError(f"anchor: {cls.name} has no _save")
    for rho in ("root", "nested"):
        for mu in A.modes(cls):
            b, g = A.graph(cls, "_save", rho, mu)
            rep.context(g.label, True)
            saves = committed_saves(g, mu)
            w = g.must_pass(g.entry, [g.exit], saves)
            descr = f"C01.b {g.label}: {sv.func.qualname} at depth 0 always completes the root's save"
            if w is None:
                rep.ok("C01.b", descr)
            else:
                rep.fail("C01.b", norm_key("C01.b", sv.func.qualname, f"rho={rho}", f"mu={'none' if mu == 'none' else 'buffered'}"),
                         f"{sv.func.qualname} can return normally at suspend depth 0 without saving through the root", g.witness(w), g.label)


def whole_self(v, selfv):
    for x in v.walk():
        if x.kind == "call":
            if x.args[0] == "json.dumps" and x.args[2] and x.args[2][0] == selfv:
                return True
            if isinstance(x.args[0], str) and x.args[0].startswith("pkg:") and x.args[0].endswith("._to_base") and x.args[1] == selfv:
                return True
    return False


def node_vals(n):
    out = []
    for k in ("args", "value", "recv", "base"):
        v = n[k]
        if isinstance(v, Val):
            out.append(v)
        elif isinstance(v, tuple):
            out.extend(x for x in v if isinstance(x, Val))
    for k, v in n["kwargs"] or ():
        if isinstance(v, Val):
            out.append(v)
    return out


def check_backends(A, rep):
    seen = {}
    for cls in A.concrete():
        owner, v = A.model.lookup(cls, "_save_to_resource")
        if v is None:
            raise AnalysisError(f"anchor: {cls.name} has no _save_to_resource")
        seen.setdefault(v.func, cls)
    rep.floor("_save_to_resource implementations", len(seen), 4)
    for func, cls in seen.items():
        for wc in ((False, True) if "_write_concern" in func.module.src else (None,)):
            for threading in (True, False):
                b, g = A.graph(cls, "_save_to_resource", "root", "none", wc=wc, threading=threading, opaque=("_to_base",))
                rep.context(g.label, True)
                selfv = Val("inst", (g.ctx.cls,), "root", "T")
                writes = [n for n in live(g) if is_res_write(n)]
                payload = [n.id for n in writes if any(whole_self(v, selfv) for v in node_vals(n))]
                w = g.must_pass(g.entry, [g.exit], payload)
                if w is None and payload:
                    rep.ok("C01.c", f"C01.c {func.qualname} [{g.label}]: every normal path passes a resource write whose payload is the whole tree")
                else:
                    rep.fail("C01.c", norm_key("C01.c", func.qualname, "payload"),
                             f"{func.qualname} can return without a resource write whose payload derives from the whole collection (json.dumps(self, ...) / self._to_base())",
                             g.witness(w) if w else [], g.label)
                # target = this instance's resource key
                bad = [n for n in writes if not any(any(x.kind == "field" and x.args[0] == selfv for x in v.walk()) for v in node_vals(n))
                       and not any(any(x.kind == "call" and x.args[0] == "builtins.open" for x in v.walk()) for v in node_vals(n))]
                if not bad:
                    rep.ok("C01.c", f"C01.c {func.qualname} [{g.label}]: every write sink is addressed through this object's own resource fields")
                else:
                    n = bad[0]
                    rep.fail("C01.c", norm_key("C01.c", func.qualname, n.stmt, "target"),
                             f"write sink `{n.stmt}` in {func.qualname} is not addressed through the instance's resource key fields", [n.where() + ": " + n.stmt], g.label)
                # C01.f an error raised by a write sink propagates: no path from its exceptional edge to the normal return
                # a file object's __exit__ never suppresses the exception it is given
                file_exits = [x.id for x in live(g) if x.kind == "call_unknown" and x["method"] == "__exit__" and x["args"] and x["args"][0] != Val("const", None)
                              and x["recv"] is not None and any(y.kind == "call" and y.args[0] == "builtins.open" for y in x["recv"].walk())]
                for n in writes:
                    swallowed = None
                    for (t, l) in g.succ[n.id]:
                        if l == "e":
                            pth = g.path(t, [g.exit], avoid=file_exits)
                            if pth is not None:
                                swallowed = pth
                    if swallowed is None:
                        rep.ok("C01.f", f"C01.f {func.qualname} [{g.label}]: an error raised by `{n.stmt}` propagates to the caller")
                    else:
                        rep.fail("C01.f", norm_key("C01.f", func.qualname, n["callee"] or n.stmt),
                                 f"{func.qualname}: an error raised by the write sink `{n.stmt}` is swallowed - the writer returns normally although the resource was not updated, so the mutator returns with the backend still holding the old content",
                                 g.witness([n.id] + swallowed), g.label)
    # C01.d total conversion
    tb = {}
    for cls in A.concrete():
        owner, v = A.model.lookup(cls, "_to_base")
        tb.setdefault(v.func, cls)
    rep.floor("_to_base implementations", len(tb), 2)
    for func, cls in tb.items():
        b, g = A.graph(cls, "_to_base", "root", "none")
        rep.context(g.label, True)
        heads = [n for n in live(g) if n.kind == "join" and n["what"] == "loop-head" and own(n)]
        stores = [n.id for n in live(g) if n.kind == "local_mut" and own(n)]
        ok = bool(heads)
        wit = []
        if not heads:
            # built by one comprehension over the data: total by construction unless it filters
            rv_ = g.nodes[g.exit]["ret"]
            alts_ = rv_.args if rv_ is not None and rv_.kind == "phi" else (rv_,)
            comps = [a for a in alts_ if a is not None and a.kind == "comp"]
            if comps and len(comps) == len([a for a in alts_ if a is not None]) and all(
                    (len(c_.args) < 4 or not c_.args[3]) and any(x.kind == "data" for it in c_.args[2] for x in it.walk()) for c_ in comps):
                ok = True
        for h in heads:
            succs = [y for (y, l) in g.succ[h.id]]
            r = g.reachable_from(succs, avoid=stores)
            if h.id in r:
                ok = False
                p = g.path(succs[0], [h.id], avoid=stores)
                wit = g.witness(p or [])
        rec = [n for n in live(g) if (n.kind in ("recurse", "enter") and n["func"].endswith("._to_base") and len(n.stack) >= 1 and n["recv"] is not None and n["recv"].args[1] == "nested")]
        if ok and rec:
            rep.ok("C01.d", f"C01.d {func.qualname}: every iteration stores one converted entry and nested collections are converted recursively")
        else:
            rep.fail("C01.d", norm_key("C01.d", func.qualname),
                     f"{func.qualname}: an iteration over the data can skip the store into the result, or nested collections are not converted recursively", wit, g.label)
    # utils.default unwraps _data
    try:
        dfunc = A.model.find_function("default")
    except AnalysisError:
        dfunc = None
    if dfunc is None or dfunc.cls is not None:
        cands = [f for f in A.model.functions if f.name == "default" and f.cls is None and f.parent is None]
        dfunc = cands[0] if cands else None
    if dfunc is None:
        raise AnalysisError("anchor: module-level JSON `default` hook not found")
    b, g = A.graph(A.concrete()[0], "default", func=dfunc, recv=Val("const", None))
    rv = g.nodes[g.exit]["ret"]
    hit = any(x.kind == "field" and x.args[1] == "_data" and x.args[0].kind == "param" for x in rv.walk())
    if hit:
        rep.ok("C01.d", "C01.d utils.default returns the node's _data for synced nodes")
    else:
        rep.fail("C01.d", norm_key("C01.d", dfunc.qualname, "unwrap"), "the JSON default hook no longer returns o._data for synced nodes", [], "utils.default")
