"""C08 - a crash during a save leaves each JSON file wholly old or wholly
new: ordering and ownership of file operations on all paths."""
import ast

from ..engine import *
from ..graph import Val, show
from ..report import norm_key
from ..model import ABC_MOD, Module
from .. import AnalysisError

META = {
    "level": "proof",
    "explanation": (
        "A process crash preserves exactly the effects of an executed prefix of file operations, so the property follows from an ordering / ownership argument over all paths of the "
        "save routine of the file backend, in each write mode (threading on; write_concern on; both off): (a) the complete serialisation precedes every file-affecting operation and is "
        "the only payload (unserialisable content raises before anything is opened - in any mode); (b) in atomic mode the target is never opened for writing: the blob goes to a fresh, "
        "uniquely named temp file in the SAME directory, that file is closed, and only then os.replace(temp, target) runs; (c) atomic mode is selected by write_concern OR active "
        "threading support; (d) who-may-write: file-mutating calls occur in no other function of the package, so buffer flushes of both strategies reach the disk only through this "
        "routine (a built-in positive example must be flagged on every run so the zero-expected rule cannot pass vacuously)."
    ),
    "rule": "obligations per write mode (3) x ordering clause, plus one who-may-write obligation per package function",
    "trusted_base": [
        "POSIX rename(2)/os.replace atomicity within one file system",
        "a process crash does not undo completed system calls (no power-loss / fsync claim)",
        "engine CFG and value provenance; stub table of file-mutating callables",
    ],
    "assumptions": ["ON_WINDOWS evaluated as False (POSIX)"],
}

FILE_MUTATORS = {
    "os.replace", "os.rename", "os.remove", "os.unlink", "os.truncate", "os.rmdir", "os.write", "os.ftruncate", "os.link", "os.symlink",
    "shutil.move", "shutil.copy", "shutil.copyfile", "shutil.copy2", "shutil.rmtree", "os.renames", "os.removedirs",
}
PATH_WRITE_METHODS = {"write_text", "write_bytes", "unlink", "rename", "replace", "touch", "rmdir"}


def units(A, tier):
    return [("save", None), ("writers", None)]


def file_backends(A):
    """_save_to_resource implementations that touch files."""
    out = {}
    for cls in A.concrete():
        owner, v = A.model.lookup(cls, "_save_to_resource")
        src = ast.unparse(v.func.node)
        if "open(" in src or "os." in src:
            out.setdefault(v.func, cls)
    if not out:
        raise AnalysisError("anchor: no file-writing _save_to_resource found")
    return out


def run_unit(A, unit, rep, tier):
    kind, _ = unit
    if kind == "writers":
        check_mode_plumbing(A, rep)
        return check_writers(A, rep)
    for func, cls in file_backends(A).items():
        for threading, wc, atomic in ((True, False, True), (False, True, True), (True, True, True), (False, False, False)):
            b, g = A.graph(cls, "_save_to_resource", "root", "none", wc=wc, threading=threading)
            label = f"{func.qualname}[threading={'on' if threading else 'off'},write_concern={wc}]"
            rep.context(label, True)
            selfv = Val("inst", (g.ctx.cls,), "root", "T")
            lv = live(g)
            dumps = [n for n in lv if n.kind == "call_ext" and n["callee"] == "json.dumps"]
            fileops = [n for n in lv if is_res_write(n)]
            if not fileops:
                raise AnalysisError(f"anchor: {func.qualname}: no file operations recognised")
            if not dumps:
                n = fileops[0]
                rep.fail("C08.a", norm_key("C08.a", func.qualname, "order"),
                         f"{func.qualname}: in this write mode the content is not serialised completely (json.dumps) before `{n.stmt}` touches the file; unserialisable content or a crash while encoding leaves a damaged file",
                         g.witness(g.path(g.entry, [n.id])), label)
                continue
            # (a) serialise first
            w = None
            for n in fileops:
                w = g.must_pass(g.entry, [n.id], [d.id for d in dumps])
                if w:
                    break
            if w is None:
                rep.ok("C08.a", f"C08.a {label}: json.dumps completes before any of the {len(fileops)} file operations on every path")
            else:
                rep.fail("C08.a", norm_key("C08.a", func.qualname, "order"), f"{func.qualname}: a file is opened / modified before the content has been serialised; unserialisable content would leave a damaged file", g.witness(w), label)
            writes = [n for n in lv if n.kind == "call_unknown" and n["method"] in ("write", "writelines")]
            payload_ok = all(any(any(x.kind == "call" and x.args[0] == "json.dumps" and x.args[2] and x.args[2][0] == selfv for x in a.walk()) for a in n["args"]) for n in writes) and writes
            if payload_ok:
                rep.ok("C08.a", f"C08.a {label}: the bytes written are the complete serialisation of the collection")
            else:
                rep.fail("C08.a", norm_key("C08.a", func.qualname, "payload"), f"{func.qualname}: what is written is not (only) the complete serialisation computed up front", [], label)
            opens = [n for n in lv if n.kind == "call_ext" and n["callee"] == "builtins.open" and is_res_write(n)]
            textmode = [n for n in opens if "b" not in open_mode(n)]
            if textmode:
                n = textmode[0]
                rep.fail("C08.a", norm_key("C08.a", func.qualname, "text-mode"),
                         f"{func.qualname}: `{n.stmt}` opens the file in text mode, so part of the serialisation (the encoding) happens inside write() after the file was opened / truncated; unencodable content damages the file", [n.where() + ": " + n.stmt], label)
            else:
                rep.ok("C08.a", f"C08.a {label}: files are written in binary mode (all encoding happens before any file is touched)")
            direct = [n for n in opens if n["args"] and n["args"][0] == Val("field", selfv, "_filename")]
            repl = [n for n in lv if n.kind == "call_ext" and n["callee"] in ("os.replace", "os.rename")]
            if not atomic:
                rep.ok("C08.c", f"C08.c {label}: non-atomic mode only when neither write_concern nor threading asks for it")
                continue
            # (c) the mode condition selected the atomic branch
            if direct:
                n = direct[0]
                rep.fail("C08.c", norm_key("C08.c", func.qualname, f"threading={threading}", f"wc={wc}"),
                         f"{func.qualname}: with {'threading support active' if threading else 'write_concern=True'} the target file can still be opened for writing in place (`{n.stmt}`): a crash mid-write leaves it truncated",
                         g.witness(g.path(g.entry, [n.id])), label)
                continue
            rep.ok("C08.c", f"C08.c {label}: atomic branch selected, target never opened for writing")
            # (b) temp file discipline
            probs = []
            if len(repl) < 1:
                probs.append(("replace", "no atomic replace of the target"))
            for r in repl:
                a = r["args"]
                if len(a) < 2 or a[1] != Val("field", selfv, "_filename"):
                    probs.append(("replace-target", f"`{r.stmt}` does not replace this object's own file"))
            for o in opens:
                pth = o["args"][0] if o["args"] else None
                if pth is None:
                    continue
                fresh = any(x.kind == "call" and x.args[0] in ("uuid.uuid4", "uuid.uuid1", "tempfile.mkstemp", "tempfile.mktemp", "secrets.token_hex") for x in pth.walk())
                if not fresh:
                    probs.append(("temp-unique", f"the temp file name in `{o.stmt}` has no fresh unique component"))
                samedir = False
                if pth.kind == "call" and pth.args[0] == "os.path.join" and pth.args[2]:
                    d = pth.args[2][0]
                    if d.kind == "sub" and d.args[0].kind == "call" and d.args[0].args[0] == "os.path.split" and d.args[0].args[2] and d.args[0].args[2][0] == Val("field", selfv, "_filename") and d.args[1] == Val("const", 0):
                        samedir = True
                    if d.kind == "call" and d.args[0] == "os.path.dirname" and d.args[2] and d.args[2][0] == Val("field", selfv, "_filename"):
                        samedir = True
                if not samedir:
                    probs.append(("temp-dir", f"the temp file of `{o.stmt}` is not created in the directory of the target (rename across file systems is not atomic)"))
                for r in repl:
                    if r["args"] and r["args"][0] != pth:
                        probs.append(("replace-source", f"`{r.stmt}` does not move the temp file that was written"))
                closes = [n.id for n in lv if n.kind == "call_unknown" and n["method"] in ("__exit__", "close") and n["recv"] == o["result"]]
                for r in repl:
                    wz = g.must_pass(g.entry, [r.id], closes)
                    if wz is not None or not closes:
                        probs.append(("close-before-replace", f"the temp file can still be open (unflushed) when `{r.stmt}` runs"))
                    ww = g.must_pass(g.entry, [r.id], [x.id for x in writes])
                    if ww is not None:
                        probs.append(("write-before-replace", f"`{r.stmt}` can run before the content was written to the temp file"))
            if not probs:
                rep.ok("C08.b", f"C08.b {label}: fresh temp file in the target's directory, written, closed, then atomically renamed over the target")
            for code, msg in probs:
                rep.fail("C08.b", norm_key("C08.b", func.qualname, code), f"{func.qualname} (atomic mode): {msg}", [], label)


def check_mode_plumbing(A, rep):
    """(e) write_concern given to the constructor reaches the field the writer tests, for every concrete class;
    (c') enable_multithreading() after disable_multithreading() restores the class state atomic mode depends on."""
    from ..model import DefEval, Method, Prop
    import copy
    for func, cls0 in file_backends(A).items():
        for cls in A.concrete():
            owner, v = A.model.lookup(cls, "_save_to_resource")
            if v is None or v.func is not func:
                continue
            owner, init = A.model.lookup(cls, "__init__")
            b, g = A.graph(cls, "__init__", "root", "none", kwargs={"parent": Val("const", None)})
            rep.context(g.label, True)
            st = [n for n in live(g) if n.kind == "attr_store" and n["name"] == "_write_concern"]
            good = [n for n in st if n["value"] == Val("param", "write_concern")]
            if good and len(good) == len(st):
                rep.ok("C08.e", f"C08.e {cls.name}: the constructor's write_concern argument is what _save_to_resource tests")
            else:
                got = show(st[0]["value"]) if st else "nothing"
                rep.fail("C08.e", norm_key("C08.e", cls.name, "write_concern"),
                         f"{cls.name}(write_concern=...) does not reach the instance field the writer tests (stored: {got}): write_concern=True is silently ignored for this class and saves are not crash-safe when threading is off",
                         [init.func.loc], cls.name)
    # round trip on a model of its own
    from ..model import Model
    m2 = Model(A.root, threading=True)
    for cls in m2.concrete_classes():
        if m2.lookup(cls, "_supports_threading")[1] is not True:
            continue
        before = {k: type(m2.lookup(cls, k)[1]).__name__ + ":" + str(m2.lookup(cls, k)[1] if isinstance(m2.lookup(cls, k)[1], bool) else "") for k in ("_thread_lock", "_threading_support_is_active", "_BUFFER_LOCK")}
        for nm in ("disable_multithreading", "enable_multithreading"):
            o, f = m2.lookup(cls, nm)
            if isinstance(f, Method):
                DefEval(m2).call(f.func, cls, [], {})
        after = {k: type(m2.lookup(cls, k)[1]).__name__ + ":" + str(m2.lookup(cls, k)[1] if isinstance(m2.lookup(cls, k)[1], bool) else "") for k in ("_thread_lock", "_threading_support_is_active", "_BUFFER_LOCK")}
        if before == after:
            rep.ok("C08.c", f"C08.c {cls.name}: disable_multithreading(); enable_multithreading() restores the threading state ({after})")
        else:
            diff = {k: (before[k], after[k]) for k in before if before[k] != after[k]}
            rep.fail("C08.c", norm_key("C08.c", "roundtrip", sorted(diff)[0]),
                     f"{cls.name}: after disable_multithreading(); enable_multithreading() the class state differs from the initial one {diff}: atomic-write mode (or locking) is not restored", [], cls.name)


def scan_writers(model, modules):
    """(function qualname, statement text, line, path) of every file-mutating call."""
    hits = []
    for mod in modules:
        for n in ast.walk(mod.tree):
            if not isinstance(n, ast.Call):
                continue
            bad = None
            r = model.resolve_dotted(mod, n.func) if isinstance(n.func, (ast.Name, ast.Attribute)) else None
            name = r[1] if (r is not None and r[0] == "ext") else None
            if isinstance(n.func, ast.Name) and n.func.id == "open" and (r is None or name == "builtins.open"):
                name = "builtins.open"
            if name in FILE_MUTATORS:
                bad = name
            elif name in ("builtins.open", "io.open", "codecs.open"):
                mode = None
                if len(n.args) >= 2:
                    mode = n.args[1]
                for k in n.keywords:
                    if k.arg == "mode":
                        mode = k.value
                if mode is None:
                    m = "r"
                elif isinstance(mode, ast.Constant) and isinstance(mode.value, str):
                    m = mode.value
                else:
                    m = "?"
                if any(ch in m for ch in "wax+?"):
                    bad = f"open(mode={m!r})"
            elif isinstance(n.func, ast.Attribute) and n.func.attr in PATH_WRITE_METHODS and name is None:
                # pathlib-style method on an unknown receiver
                recv = ast.unparse(n.func.value)
                if "path" in recv.lower() or "Path(" in recv:
                    bad = f".{n.func.attr}()"
            if bad:
                p = n
                fn = None
                while p is not None:
                    if isinstance(p, (ast.FunctionDef, ast.AsyncFunctionDef)) and fn is None:
                        fn = getattr(p, "_funcinfo", None)
                    p = getattr(p, "_parent", None)
                st = n
                while not isinstance(st, ast.stmt):
                    st = st._parent
                hits.append((fn.qualname if fn is not None else "<module>", " ".join(ast.unparse(st).split())[:120], n.lineno, mod.path, bad))
    return hits


def _enclosing(n):
    p = getattr(n, "_parent", None)
    while p is not None:
        if isinstance(p, (ast.FunctionDef, ast.AsyncFunctionDef)):
            fi = getattr(p, "_funcinfo", None)
            return fi.qualname if fi is not None else "<unknown>"
        p = getattr(p, "_parent", None)
    return "<module>"


def exclusive_helpers(m, mods, allowed):
    """`allowed` plus every private function that is referenced ONLY from inside it (transitively): code the
    single writer merely moved into a helper of its own is still the single writer.  References are matched by
    bare name over the whole package, so any use from elsewhere (or a same-named function) keeps it out."""
    refs = {}
    for mod in mods:
        for n in ast.walk(mod.tree):
            if isinstance(n, ast.Name) and isinstance(n.ctx, ast.Load):
                nm = n.id
            elif isinstance(n, ast.Attribute) and isinstance(n.ctx, ast.Load):
                nm = n.attr
            elif isinstance(n, ast.Constant) and isinstance(n.value, str) and n.value.isidentifier():
                nm = n.value  # getattr(x, "name") / __all__
            else:
                continue
            refs.setdefault(nm, set()).add(_enclosing(n))
    ext = set(allowed)
    changed = True
    while changed:
        changed = False
        for f in m.functions:
            if f.qualname in ext or f.module.name == ABC_MOD:
                continue
            if f.parent is not None:
                # a function defined inside a function is part of it (it cannot be named from anywhere else)
                if f.parent.qualname in ext:
                    ext.add(f.qualname)
                    changed = True
                continue
            if not f.name.startswith("_") or (f.name.startswith("__") and f.name.endswith("__")):
                continue
            r = refs.get(f.name)
            if r and all(q in ext for q in r):
                ext.add(f.qualname)
                changed = True
    return ext


def check_writers(A, rep):
    m = A.model
    mods = [mod for name, mod in m.modules.items() if name != ABC_MOD]
    allowed = exclusive_helpers(m, mods, {f.qualname for f in file_backends(A)})
    hits = scan_writers(m, mods)
    rep.context("who-may-write", True)
    # built-in positive example
    probe = Module("synced_collections._vsa_probe", "<probe>", "import os\n\ndef stray(p, b):\n    with open(p, 'w') as f:\n        f.write(b)\n    os.remove(p)\n", False)
    m._exec_module_body(probe, probe.tree.body)
    ph = scan_writers(m, [probe])
    if len(ph) != 2:
        raise AnalysisError(f"who-may-write self-check failed: the built-in positive example produced {len(ph)} hits instead of 2")
    n_funcs = len([f for f in m.functions if f.module.name != ABC_MOD])
    ok_hits = [h for h in hits if h[0] in allowed]
    rep.floor("file-writing call sites in the allowed writer", len(ok_hits), 1)
    bad = [h for h in hits if h[0] not in allowed]
    for q, stmt, line, path, what in bad:
        rep.fail("C08.d", norm_key("C08.d", q, stmt), f"{q} modifies files directly ({what}: `{stmt}`), outside the single crash-safe writer {sorted(allowed)}", [f"{path}:{line}: {stmt}"], q)
    if not bad:
        rep.ok("C08.d", f"C08.d who-may-write: {n_funcs} functions scanned, {len(ok_hits)} file-mutating call sites, all inside {sorted(allowed)}; positive probe flagged")
