"""C06 - objects on one file share one buffered state."""
from ..engine import *
from ..graph import Val, show
from ..report import norm_key
from .. import AnalysisError
from .c07 import flush_impls
from .c17 import modified_guard

META = {
    "level": "other",
    "explanation": (
        "The shared state of all objects bound to one file is the single buffer entry Class._buffer[filename]. Decided by provenance on the automata of every _flush / "
        "_load_from_buffer / _save_to_buffer / _flush_buffer implementation: (a) the decision 'write or drop the entry without writing' depends only on fields of the shared entry, "
        "never on the flushing object's private _data (which is older than the entry when another object wrote last); (b) the serialized flush writes what the entry holds; (c) every "
        "buffered access refreshes the object from the entry (returns / re-points to the entry's contents on every path); (d) every buffered load and save registers the object for "
        "the class-wide flush, that flush only stops when the registry is exhausted, and the registry holds strong references (a weak mapping drops collections the user no longer references). (h) a flush never re-points a buffer entry's contents (only entry creation and an operation's save may): nested handles obtained earlier stay part of the buffered data. Order independence as a behavioural fact is NOT decided."
    ),
    "rule": "obligations per implementation x buffered class kind (dict and list)",
    "trusted_base": ["engine value provenance (symbolic expressions) and CFG"],
    "assumptions": [],
}


def units(A, tier):
    return [("all", None)]


def run_unit(A, unit, rep, tier):
    for func, classes in flush_impls(A).items():
        for cls in classes[:2]:
            for force in (False, True):
                b, g = A.graph(cls, "_flush", "root", "none", args=[Val("const", force)])
                label = f"{func.qualname} on {cls.name} force={force}"
                rep.context(label, True)
                decisions = [n for n in live(g) if modified_guard(n) and own(n)]
                if not decisions:
                    rep.fail("C06.a", norm_key("C06.a", func.qualname, "anchor"), f"{func.qualname}: no write/skip decision on the entry found", [], label)
                for d in decisions:
                    own_data = [x for x in d["cond"].walk() if x.kind == "data" and x.args[0].args[2] == "T"]
                    if not own_data:
                        rep.ok("C06.a", f"C06.a {label}: `{d.stmt}` depends only on the shared entry")
                    else:
                        rep.fail("C06.a", norm_key("C06.a", func.qualname, d.stmt),
                                 f"{func.qualname}: the decision `{d.stmt}` whether to write or to drop the shared buffer entry depends on the flushing object's own _data; when another object "
                                 "on the same file wrote last, flushing this (unchanged) object first discards that write", [d.where() + ": " + d.stmt], label)
    # (c) refresh from the entry
    seen = {}
    for cls in A.concrete():
        if A.is_buffered(cls):
            owner, v = A.model.lookup(cls, "_load_from_buffer")
            seen.setdefault(v.func, []).append(cls)
    for func, classes in seen.items():
        for cls in classes[:2]:
            b, g = A.graph(cls, "_load_from_buffer", "root", "obj")
            rep.context(g.label, True)
            rv = g.nodes[g.exit]["ret"]
            from_entry = any(x.kind == "cattr" and x.args[1] == "_buffer" for x in rv.walk())
            repoint = [n.id for n in live(g) if n.kind == "data_mut" and n["op"] == "rebind" and recv_like_root(n) and cattr_origin(n["value"]) is not None and cattr_origin(n["value"]).args[1] == "_buffer"]
            # (g) taking the data from the entry by RE-POINTING the root container at a container that another
            #     object on the same file may have created swaps this object's whole tree: nested handles obtained
            #     before are detached and writes through them are lost
            for rid in repoint:
                n = g.nodes[rid]
                rep.fail("C06.g", norm_key("C06.g", n.func, "repoint"),
                         f"{n.func}: `{n.stmt}` replaces this object's root container by the container stored in the shared buffer entry; when another object on the same file created that entry, "
                         "every nested handle obtained from this object earlier is detached from the tree and writes through it never reach the buffer or the file",
                         [n.where() + ": " + n.stmt], g.label)
            ok = from_entry or (repoint and g.must_pass(g.entry, [g.exit], repoint) is None)
            if ok:
                rep.ok("C06.c", f"C06.c {g.label}: every buffered access takes the data from the shared entry")
            else:
                rep.fail("C06.c", norm_key("C06.c", func.qualname), f"{func.qualname} can return without taking the data from the shared buffer entry (a write through another object on the same file stays invisible)", [], g.label)
            # (d) registration
            for m in ("_load_from_buffer", "_save_to_buffer"):
                b, g = A.graph(cls, m, "root", "obj")
                regs = [n.id for n in live(g) if n.kind == "cs_write" and n["name"] == "_buffered_collections" and n["op"] == "setitem" and n["value"] is not None and n["value"].kind == "inst"]
                w = g.must_pass(g.entry, [g.exit], regs)
                f = A.model.lookup(cls, m)[1].func
                if w is None and regs:
                    rep.ok("C06.d", f"C06.d {g.label}: the object is registered for the class-wide flush on every path")
                else:
                    rep.fail("C06.d", norm_key("C06.d", f.qualname), f"{f.qualname} can complete without registering the object for the class-wide flush: leaving the buffered state would skip it", g.witness(w or []), g.label)
    # (d') the registry keeps its members alive: the class-wide flush finds its work only through it, so a weak
    #      mapping silently drops a collection (and its buffered writes) once the user's last handle is gone
    STRONG = {"collections.OrderedDict", "collections.defaultdict", "builtins.dict", "dict", "OrderedDict", "defaultdict"}
    for cls in A.concrete():
        if not A.is_buffered(cls):
            continue
        owner, v = A.model.lookup(cls, "_buffered_collections")
        kind = None
        if isinstance(v, dict):
            kind = "dict"
        elif hasattr(v, "kind") and isinstance(getattr(v, "kind"), str) and v.kind.startswith("ext:"):
            kind = v.kind[4:]
        if owner is None:
            raise AnalysisError(f"anchor: {cls.name} has no registry of buffered collections (_buffered_collections)")
        if kind == "dict" or kind in STRONG:
            rep.ok("C06.d", f"C06.d {cls.name}: the registry of buffered collections holds strong references ({kind})")
        elif kind is not None and "weak" in kind.lower():
            rep.fail("C06.d", norm_key("C06.d", cls.name, "weak-registry"),
                     f"{cls.name}: the registry of buffered collections is a {kind}: a collection whose last user handle is dropped inside the buffered context disappears from it and is never flushed (buffered writes lost, entry and size left behind)",
                     [], cls.name)
        else:
            raise AnalysisError(f"anchor: the registry of buffered collections of {cls.name} is of a kind this check does not know ({kind or type(v).__name__}); not decided")
    # (e) serialized strategy: a new entry's reference hash is the hash of exactly the contents stored with it
    for cls in A.concrete():
        if cls.is_subclass_of("SerializedFileBufferedCollection") and not A.is_list(cls) and not cls.is_subclass_of("AttrDict"):
            b, g = A.graph(cls, "_initialize_data_in_buffer", "root", "obj")
            rep.context(g.label, True)
            ins = [n for n in live(g) if n.kind == "cs_write" and n["name"] == "_buffer" and n["op"] == "setitem" and n["target"].kind == "cattr" and n["value"].kind == "dict"]
            f = A.model.lookup(cls, "_initialize_data_in_buffer")[1].func
            good = False
            for n in ins:
                d = {k.args[0]: v for k, v in n["value"].args if k is not None and k.kind == "const"}
                c, h = d.get("contents"), d.get("hash")
                if c is not None and h is not None:
                    fed = [x.args[1] for x in h.walk() if x.kind == "mut"]  # what is fed into the hash object
                    uses = bool(fed) and all(a == (c,) for a in fed)
                    if not fed:
                        uses = any(x.kind == "call" and x.args[2] == (c,) for x in h.walk())
                    good = uses
            if good:
                rep.ok("C06.e", f"C06.e {f.qualname}: the reference hash of a new entry is the hash of the stored contents")
            else:
                rep.fail("C06.e", norm_key("C06.e", f.qualname), f"{f.qualname}: the reference hash stored with a new buffer entry is not (unconditionally) the hash of the contents stored with it: a file that was only read looks modified (or a modified one unmodified)", [], g.label)
    # (h) who may point a buffer entry at a container: the entry creator and the save of an operation.  A flush that
    # stores another container as the entry's contents (e.g. the copy it rebuilt for a still-buffered object) detaches
    # every nested handle obtained earlier: writes through them reach neither the buffer nor the file.
    for func, classes in flush_impls(A).items():
        cls = classes[0]
        bad = None
        for mu in A.modes(cls):
            for force in (False, True):
                b, g = A.graph(cls, "_flush", "root", mu, args=[Val("const", force)])
                rep.context(g.label, True)
                for n in live(g):
                    if n.kind == "cs_write" and n["name"] == "_buffer" and n["op"] == "setitem" and n["index"] == Val("const", "contents") and own(n):
                        bad = (n, g)
        if bad is None:
            rep.ok("C06.h", f"C06.h {func.qualname}: a flush never re-points a buffer entry's contents")
        else:
            n, g = bad
            rep.fail("C06.h", norm_key("C06.h", func.qualname, "contents"),
                     f"{func.qualname}: `{n.stmt}` makes the shared buffer entry point at another container; the objects and nested handles that share the previous one are detached and their later writes are lost",
                     g.witness(g.path(g.entry, [n.id]) or [n.id]), g.label)
    fb = {}
    for cls in A.concrete():
        if A.is_buffered(cls):
            owner, v = A.model.lookup(cls, "_flush_buffer")
            fb.setdefault(v.func, cls)
    for func, cls in fb.items():
        b, g = A.graph(cls, "_flush_buffer", "root", "none", recv=Val("cls", (cls,)), args=[Val("const", False)])
        rep.context(g.label, True)
        hs = [n.id for n in live(g) if n.kind == "handler" and "KeyError" in n["types"] and (own(n) or n.func.endswith("._flush_buffer"))]
        pops = [n.id for n in live(g) if n.kind == "cs_write" and n["name"] == "_buffered_collections" and n["op"].startswith("call:pop")]
        # the registry found empty by an explicit test (`if not registry: break`, `while registry:`) is the same witness of exhaustion
        hs += [n.id for n in live(g) if n.kind == "arm" and (own(n) or n.func.endswith("._flush_buffer")) and _registry_empty_arm(g.nodes[n["branch"]]["cond"], n["arm"])]
        w = g.must_pass(g.entry, [g.exit], hs)
        if w is None and hs and pops:
            rep.ok("C06.d", f"C06.d {func.qualname}: the flush loop ends only when the registry is exhausted")
        else:
            rep.fail("C06.d", norm_key("C06.d", func.qualname, "loop"), f"{func.qualname} can finish before every registered collection was visited", g.witness(w or []), g.label)


def _registry_empty_arm(c, arm):
    """The arm of a test on which the registry of buffered collections is known to be empty."""
    if c.kind == "not":
        return _registry_empty_arm(c.args[0], not arm)
    if c.kind == "cattr" and c.args[1] == "_buffered_collections":
        return arm is False
    if c.kind == "cmp" and c.args[0] in ("==", "!=", ">", "<") and len(c.args) == 3:
        a, b = c.args[1], c.args[2]
        if c.args[0] == "<":
            a, b = b, a
        is_len = a.kind == "call" and a.args[0] == "len" and any(x.kind == "cattr" and x.args[1] == "_buffered_collections" for x in a.walk())
        if is_len and b == Val("const", 0):
            return arm is (c.args[0] == "==")
    return False


def recv_like_root(n):
    o = n["owner"]
    return o.kind == "inst" and o.args[1] == "root"
