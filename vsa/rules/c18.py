"""C18 - nested containers keep the root's family; attribute access equals
item access."""
import ast

from ..engine import *
from ..graph import Val, show
from ..classify import find_resolvers, tag_of
from ..report import norm_key
from ..model import ABC_MOD, ExtClass
from .. import AnalysisError

META = {
    "level": "other",
    "explanation": (
        "(a) registry buckets are closed families, computed from the statically evaluated _backend strings and the partial evaluation of __init_subclass__: every bucket has exactly one "
        "class accepting mappings and one accepting sequences, all with the same backend / buffering bases, the mapping class has attribute access if any class of the bucket's family "
        "has, and every concrete class is in the bucket its own _backend names; (b) every conversion call in a data-type method passes parent=self, so nested containers are attached "
        "to the tree's root; (c) for every class with attribute access, every instance attribute assigned anywhere in its MRO is a protected key or a dunder (otherwise __setattr__ "
        "diverts an internal assignment into the user's data); (d) __getattr__/__setattr__/__delattr__ forward to __getitem__/__setitem__/__delitem__ with the same name, KeyError becomes "
        "AttributeError, and set/del use the same routing predicate; (e) no dynamic setattr/delattr on mutator paths. Per-key behaviour beyond Python's attribute lookup rules is trusted."
    ),
    "rule": "obligation per bucket / per conversion call site / per assigned attribute name / per forwarding method",
    "trusted_base": ["definition-time evaluator of the class hooks", "Python attribute lookup rules"],
    "assumptions": [],
}


def units(A, tier):
    return [("families", None), ("attr", None)] + [("class", c.name) for c in A.concrete()]


def layer_bases(A, cls):
    skip = {"SyncedDict", "SyncedList", "AttrDict", "SyncedCollection"}
    return tuple(k.name for k in cls.mro if not isinstance(k, ExtClass) and k.module.name != ABC_MOD and k.name not in skip and not A.model.lookup(k, "is_base_type")[1] is None and False) or \
        tuple(sorted(k.name for k in cls.mro if not isinstance(k, ExtClass) and k.module.name != ABC_MOD and k.name not in skip and "is_base_type" not in _own_concrete(k)))


def _own_concrete(k):
    return {n for n, v in k.cdict.items()}


def abstract_layers(A, cls):
    """Names of the abstract (non data-type, non concrete) package classes in the MRO."""
    out = []
    for k in cls.mro:
        if isinstance(k, ExtClass) or k.module.name == ABC_MOD:
            continue
        if k.name in ("SyncedDict", "SyncedList", "AttrDict", "SyncedCollection"):
            continue
        if A.model.is_abstract(k):
            out.append(k.name)
    return tuple(sorted(out))


def run_unit(A, unit, rep, tier):
    kind, name = unit
    m = A.model
    if kind == "families":
        rs = find_resolvers(m)
        reg = m.registry
        rep.floor("registry buckets", len(reg), 9)
        for bucket, classes in sorted(reg.items()):
            rep.context(f"bucket {bucket}", True)
            short = bucket.split(".")[-1]
            maps = [c for c in classes if not A.is_list(c)]
            seqs = [c for c in classes if A.is_list(c)]
            # what is_base_type accepts, via its resolver
            acc = {}
            for c in classes:
                owner, ib = m.lookup(c, "is_base_type")
                src = ast.unparse(ib.func.node)
                used = [r for r in rs if r.name in src]
                lit = [n.comparators[0].value for n in ast.walk(ib.func.node) if isinstance(n, ast.Compare) and isinstance(n.comparators[0], ast.Constant)]
                if len(used) == 1 and lit:
                    acc[c] = {t for t in ("dict", "list") if tag_of(m, used[0], t)[0] == lit[0]}
                else:
                    acc[c] = {"dict"} if not A.is_list(c) else {"list"}
            nd = [c for c in classes if "dict" in acc[c]]
            nl = [c for c in classes if "list" in acc[c]]
            if len(nd) == 1 and len(nl) == 1 and nd[0] is not nl[0]:
                rep.ok("C18.a", f"C18.a bucket {short}: exactly one mapping class ({nd[0].name}) and one sequence class ({nl[0].name})")
            else:
                rep.fail("C18.a", norm_key("C18.a", short, "shape"),
                         f"registry bucket {short} is not a closed family: mapping classes {[c.name for c in nd]}, sequence classes {[c.name for c in nl]}; nested containers of the missing / ambiguous "
                         "kind are created from the wrong family or stay plain", [], bucket)
            layers = {abstract_layers(A, c) for c in classes}
            if len(layers) == 1:
                rep.ok("C18.a", f"C18.a bucket {short}: all classes share the backend / buffering layers {sorted(layers)[0]}")
            else:
                rep.fail("C18.a", norm_key("C18.a", short, "layers"), f"registry bucket {short} mixes backend / buffering layers: { {c.name: abstract_layers(A, c) for c in classes} }; a nested container would not be buffered / stored like its root", [], bucket)
            for c in classes:
                if m.bucket_of(c) != bucket:
                    rep.fail("C18.a", norm_key("C18.a", c.name, "self-bucket"), f"{c.name} is registered in bucket {short} but its _backend names another one", [], bucket)
        # every concrete class is in the bucket it names; attr families
        for c in A.concrete():
            b = m.bucket_of(c)
            if b is None or c not in reg.get(b, []):
                rep.fail("C18.a", norm_key("C18.a", c.name, "unregistered"), f"{c.name}: _backend does not evaluate to the key of a registry bucket containing the class", [], c.name)
                continue
            if c.is_subclass_of("AttrDict"):
                others = [k for k in reg[b] if k is not c]
                for k in reg[b]:
                    if not A.is_list(k) and not k.is_subclass_of("AttrDict"):
                        rep.fail("C18.a", norm_key("C18.a", b.split(".")[-1], "attr"), f"bucket {b.split('.')[-1]} contains the attribute-access class {c.name} but its mapping class {k.name} has no attribute access", [], b)
                rep.ok("C18.a", f"C18.a {c.name}: nested dicts of its bucket have attribute access")
            # a class whose name says Attr but which shares a non-attr bucket
        # list classes meant for attr families must live in a bucket whose mapping class has AttrDict
        for c in A.concrete():
            if A.is_list(c):
                b = m.bucket_of(c)
                own = "_backend" in c.cdict
                if not own:
                    # inherits the bucket of its parent: then it must not differ from the parent's family intent
                    parent_concrete = [k for k in c.mro[1:] if not isinstance(k, ExtClass) and k in A.concrete()]
                    if parent_concrete:
                        rep.fail("C18.a", norm_key("C18.a", c.name, "no-backend"),
                                 f"{c.name} subclasses the concrete class {parent_concrete[0].name} without declaring its own _backend: it joins {parent_concrete[0].name}'s bucket as a second sequence class "
                                 "and nested containers under it come from the parent's family", [], c.name)
        return
    if kind == "attr":
        return check_attr(A, rep)
    cls = m.find_class(name)
    eps = A.entry_points(cls)
    graphs = []
    for mm in A.mutators(cls):
        for rho in ("root", "nested"):
            graphs.append(A.graph(cls, mm, rho, "none")[1])
    graphs.append(A.graph(cls, "__init__", "root", "none", kwargs={"parent": Val("const", None)})[1])
    graphs.append(A.graph(cls, "_update", "root", "none")[1])
    n_calls = 0
    for g in graphs:
        rep.context(g.label, True)
        for n in live(g):
            if n.kind == "call_pkg" and n["fname"] == "_from_base":
                n_calls += 1
                par = dict(n["kwargs"]).get("parent")
                holder = n.stack[-1][1] if n.stack else ""
                if par is not None and par.kind == "inst" and show(par) == holder:
                    rep.ok("C18.b")
                else:
                    rep.fail("C18.b", norm_key("C18.b", n.func, n.stmt),
                             f"{n.func}: `{n.stmt}` converts a value without parent=self: a nested container created there is not attached to the tree (mutating it does not persist)",
                             [n.where() + ": " + n.stmt], g.label)
            if n.kind == "dyn_attr" and n["op"] in ("setattr", "delattr"):
                rep.fail("C18.e", norm_key("C18.e", n.func, n.stmt), f"{n.func}: dynamic `{n.stmt}` on a mutator path: item access must never touch the object's attributes", [n.where()], g.label)
    # (f) item access / iteration hand out the LIVE nested nodes (so that mutating them persists), not plain copies
    for m_ in ("__getitem__", "__iter__", "__reversed__", "get", "pop", "popitem", "setdefault"):
        if m_ not in eps or eps[m_].module.name == ABC_MOD:
            continue
        b, g = A.graph(cls, m_, "root", "none")
        plain = [n["ret"] for n in live(g) if n.kind == "leave" and n["fname"] in ("_to_base", "__call__") and n["ret"] is not None and n["ret"].kind in ("dict", "list", "comp")]
        rv = g.nodes[g.exit]["ret"]
        hit = rv is not None and plain and any(x in plain for x in rv.walk())
        if hit:
            rep.fail("C18.f", norm_key("C18.f", eps[m_].qualname), f"{eps[m_].qualname} hands out elements of a plain copy (`_to_base()` / `self()`) instead of the live nested nodes: a nested container obtained this way is not a synced collection and mutating it does not persist", [eps[m_].loc], g.label)
        else:
            rep.ok("C18.f")
    rep.floor(f"conversion call sites reached from {cls.name}", n_calls, 5)
    rep.ok("C18.e", f"C18.e {cls.name}: no dynamic setattr/delattr on mutator paths")


def check_plain_rebind(A, rep):
    """No code path rebinds _data to the result of _to_base()/__call__ (plain
    containers): nested containers would stop being synced nodes."""
    n_sites = 0
    for cls in A.concrete():
        graphs = [A.graph(cls, "_update", "root", "none")[1]]
        if A.is_buffered(cls):
            for mu in ("none", "obj", "backend"):
                for force in (False, True):
                    graphs.append(A.graph(cls, "_flush", "root", mu, args=[Val("const", force)])[1])
        for g in graphs:
            for n in live(g):
                if n.kind == "data_mut" and n["op"] == "rebind":
                    n_sites += 1
                    plain = False
                    for (p, l) in g.pred[n.id]:
                        q = g.nodes[p]
                        while q.kind == "join" and g.pred[q.id]:
                            q = g.nodes[g.pred[q.id][0][0]]
                        if q.kind == "leave" and q["fname"] in ("_to_base", "__call__") and q["ret"] == n["value"]:
                            plain = True
                    if plain:
                        rep.fail("C18.b", norm_key("C18.b", n.func, n.stmt),
                                 f"{n.func}: `{n.stmt}` rebinds _data to plain (unconverted) data: nested containers are no longer synced collections of the root's family, so mutating them does not persist",
                                 [n.where() + ": " + n.stmt], g.label)
                    else:
                        rep.ok("C18.b")
    return n_sites


def check_attr(A, rep):
    m = A.model
    check_plain_rebind(A, rep)
    attr_classes = [c for c in A.concrete() if c.is_subclass_of("AttrDict")]
    rep.floor("attribute-access classes", len(attr_classes), 3)
    for c in attr_classes:
        owner, pk = m.lookup(c, "_PROTECTED_KEYS")
        if not isinstance(pk, frozenset):
            raise AnalysisError(f"anchor: {c.name}._PROTECTED_KEYS is not statically evaluable")
        assigned = {}
        for k in c.mro:
            if isinstance(k, ExtClass) or k.module.name == ABC_MOD:
                continue
            for fn in k.methods.values():
                if fn.kind in ("classmethod", "staticmethod"):
                    continue
                selfname = fn.node.args.args[0].arg if fn.node.args.args else None
                for n in ast.walk(fn.node):
                    tg = []
                    if isinstance(n, ast.Assign):
                        tg = n.targets
                    elif isinstance(n, (ast.AugAssign, ast.AnnAssign)):
                        tg = [n.target]
                    elif isinstance(n, ast.Delete):
                        tg = n.targets
                    for t in tg:
                        if isinstance(t, ast.Attribute) and isinstance(t.value, ast.Name) and t.value.id == selfname:
                            assigned.setdefault(t.attr, fn)
                    if isinstance(n, ast.Call) and isinstance(n.func, ast.Name) and n.func.id in ("setattr", "delattr") and len(n.args) >= 2 and isinstance(n.args[0], ast.Name) and n.args[0].id == selfname and isinstance(n.args[1], ast.Constant):
                        assigned.setdefault(n.args[1].value, fn)
        # properties with a setter are assigned through attribute syntax too
        from ..model import Prop as _Prop
        for k in c.mro:
            if isinstance(k, ExtClass) or k.module.name == ABC_MOD:
                continue
            for nm, v in k.cdict.items():
                if isinstance(v, _Prop) and v.fset is not None:
                    assigned.setdefault(nm, v.fset)
        rep.context(f"{c.name} protected keys", True)
        for name, fn in sorted(assigned.items()):
            if name in pk or name.startswith("__"):
                rep.ok("C18.c", f"C18.c {c.name}: instance attribute `{name}` (assigned in {fn.qualname}) is protected")
            else:
                rep.fail("C18.c", norm_key("C18.c", c.name, name),
                         f"{c.name}: `self.{name} = ...` in {fn.qualname} is not in _PROTECTED_KEYS, so AttrDict.__setattr__ stores it as a data key '{name}' (and saves it) instead of setting the attribute",
                         [fn.loc], c.name)
        # (d) forwarding
        pairs = (("__getattr__", "__getitem__"), ("__setattr__", "__setitem__"), ("__delattr__", "__delitem__"))
        conds = {}
        for a, b_ in pairs:
            bb, g = A.graph(c, a, "root", "none")
            rep.context(g.label, True)
            f = A.entry_points(c).get(a) or m.lookup(c, a)[1].func
            params = [p.arg for p in f.node.args.args][1:]
            ent = [n for n in live(g) if is_enter(n, b_) and depth(n) == 2]
            okf = bool(ent) and all(list(n["args"].values())[1:] == [Val("param", p) for p in params] for n in ent)
            if okf:
                rep.ok("C18.d", f"C18.d {c.name}.{a} forwards to {b_} with the same name{'/value' if len(params) > 1 else ''}")
            else:
                rep.fail("C18.d", norm_key("C18.d", f.qualname, "forward"), f"{f.qualname} does not forward to {b_} with its own arguments unchanged", [f.loc], g.label)
            if a == "__getattr__":
                hs = [n for n in live(g) if n.kind == "handler" and "KeyError" in n["types"] and depth(n) == 1]
                rs_ = [n for n in live(g) if n.kind == "raise" and "AttributeError" in (n["exc"] or ()) and depth(n) == 1]
                conv = bool(hs) and any(g.path(h.id, [r.id]) for h in hs for r in rs_)
                if conv:
                    rep.ok("C18.d", f"C18.d {c.name}.__getattr__: a missing key becomes AttributeError")
                else:
                    rep.fail("C18.d", norm_key("C18.d", f.qualname, "keyerror"), f"{f.qualname}: a missing key is not converted into AttributeError", [f.loc], g.label)
            else:
                brs = [n for n in live(g) if n.kind == "branch" and depth(n) == 1]
                conds[a] = [show(n["cond"]).replace("$" + params[0], "$K") for n in brs]
                prefixes = [x.args[2][0].args[0] for n in brs for x in n["cond"].walk() if x.kind == "call" and x.args[0] == "startswith" and x.args[2] and x.args[2][0].kind == "const"]
                if prefixes and all(p_ == "__" for p_ in prefixes):
                    rep.ok("C18.d", f"C18.d {c.name}.{a}: only protected names and dunders ('__' prefix) address the object itself")
                elif not prefixes:
                    rep.undecided_note("C18.d", f"{f.qualname}: the dunder test is not a literal startswith(...) call; prefix not judged")
                else:
                    rep.fail("C18.d", norm_key("C18.d", f.qualname, "prefix"),
                             f"{f.qualname} routes names with prefix {prefixes} to the object instead of the data (only protected names and dunders, prefix '__', may): such keys are never stored or saved", [f.loc], g.label)
        if conds.get("__setattr__") == conds.get("__delattr__") and conds.get("__setattr__"):
            rep.ok("C18.d", f"C18.d {c.name}: __setattr__ and __delattr__ use the same routing predicate")
        else:
            rep.fail("C18.d", norm_key("C18.d", c.name, "routing"), f"{c.name}: __setattr__ and __delattr__ route protected names differently: {conds}", [], c.name)
