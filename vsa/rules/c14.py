"""C14 - readers next to writers: reads must not mutate shared tree state or
consult the shared suspend flag without the collection lock."""
from ..engine import *
from ..graph import Val, show
from ..report import norm_key
from .. import AnalysisError
from . import c13

META = {
    "level": "other",
    "explanation": (
        "Lockset analysis of every READ entry point x thread-safe class x {root,nested} x buffering mode with threading on: (a) every mutation of the shared tree performed on behalf "
        "of a read (the in-place merge done by _load, including list growth) and every change of the tree's suspend counter holds the root's collection lock - or the read performs "
        "none; (b) every test of the suspend counter that decides to skip a load is made under that lock (otherwise thread B skips its load because thread A is inside a suspended "
        "section); (c) buffered reads access class-wide buffer state only under the buffer lock (C13.a restricted to readers); (e) a read is answered from one loaded snapshot: no path "
        "load -> read of the data -> second load of the same tree -> read of the data without the lock held across. Returned values under interleavings are otherwise NOT decided."
    ),
    "rule": "contexts = thread-safe class x reader x {root,nested} x mode; non-trivial = the read merges into the shared tree",
    "trusted_base": ["engine lock identity and CFG"],
    "assumptions": ["threading support active"],
}


def units(A, tier):
    return [("class", c.name) for c in A.concrete() if A.supports_threading(c)]


def innermost_load(n):
    for q, r in reversed(n.stack):
        if q.split(".")[-1] in ("_load", "_load_from_buffer", "_flush"):
            return q
    return n.func


def run_unit(A, unit, rep, tier):
    kind, name = unit
    cls = A.model.find_class(name)
    eps = A.entry_points(cls)
    for m in A.readers(cls):
        f = eps[m]
        for rho in ("root", "nested"):
            for mu in A.modes(cls):
                b, g = A.graph(cls, m, rho, mu)
                shared = [n for n in live(g) if (n.kind == "data_mut" and n["owner"].args[2] == "T") or (n.kind == "count" and "_suspend_sync" in str(n["counter"]) and n["counter"][0] == "T")]
                tests = [n for n in live(g) if n.kind == "branch" and any(x.kind == "obj" and "_suspend_sync" in str(x.args[1]) and x.args[1][0] == "T" for x in n["cond"].walk())]
                rep.context(g.label, bool(shared))
                st = lock_dataflow(g)
                want = "col:root:T"
                for n in shared:
                    if all(want in held_ids(s) for s in st.get(n.id, [()])):
                        rep.ok("C14.a")
                    else:
                        where = innermost_load(n)
                        what = "mutates the shared tree" if n.kind == "data_mut" else "changes the tree's suspend counter"
                        rep.fail("C14.a", norm_key("C14.a", where, "merge" if n.kind == "data_mut" else "suspend-counter"),
                                 f"a read operation {what} (`{n.stmt}` in {n.func}, reached through {where}) without holding the collection lock: a concurrent writer's "
                                 f"update can be merged away or its save skipped", g.witness(g.path(g.entry, [n.id])), g.label)
                # (d) the backend is read while the tree-wide suspend counter is NOT raised: while it is raised every
                #     other thread's load and save on this tree are skipped, so raising it across I/O turns the short
                #     merge window into a long one
                from .c10 import count_dataflow
                cs = count_dataflow(g)
                for n in live(g):
                    if n.kind == "enter" and n["fname"] == "_load_from_resource" and recv_is_root_T(n):
                        raised = any(v > 0 for s_ in cs.get(n.id, [()]) for k_, v in s_ if "_suspend_sync" in k_ and k_.startswith("('T'"))
                        if not raised:
                            rep.ok("C14.d")
                        else:
                            caller = n.stack[-2][0] if len(n.stack) > 1 else n.func
                            rep.fail("C14.d", norm_key("C14.d", caller, n.stmt if n.stmt else "load"),
                                     f"{caller} reads the backend while the tree-wide suspend counter is raised: for the whole duration of the I/O every other thread's save on this tree is silently skipped (a writer returns normally and its update is lost)",
                                     g.witness(g.path(g.entry, [n.id])), g.label)
                for n in tests:
                    own_classes = {c_.name for x in n["cond"].walk() if x.kind == "obj" and hasattr(x.args[0], "mro") for c_ in x.args[0].mro}
                    if n.func.split(".")[0] in own_classes:
                        rep.ok("C14.b")  # the counter's own bookkeeping (its change events are obligations of C14.a)
                        continue
                    if not decides_something(g, n):
                        rep.ok("C14.b")  # both outcomes of the test lead to the same effects (e.g. a no-op hook)
                        continue
                    if all(want in held_ids(s) for s in st.get(n.id, [()])):
                        rep.ok("C14.b")
                    else:
                        rep.fail("C14.b", norm_key("C14.b", n.func, "suspend-test"),
                                 f"`{n.stmt}` in {n.func} consults the tree-wide suspend counter without the collection lock: while another thread is inside a suspended section this "
                                 f"read silently skips its load", g.witness(g.path(g.entry, [n.id])), g.label)
                check_one_snapshot(g, st, want, rep)
    if A.is_buffered(cls):
        c13.run_unit(A, unit, rep, tier, readers_only=True, rule="C14.c")


def decides_something(g, b):
    """The branch guards an effect: the sets of effect events (backend reads / writes, data or class-state
    mutations, counter changes, calls into the load / save protocol) reachable from its two arms differ."""
    arms = [y for (y, l) in g.succ[b.id]]
    if len(arms) < 2:
        return True  # pruned / correlated branch: keep the conservative answer
    def effects(a):
        out = set()
        for i in g.reachable_from([a]):
            n = g.nodes[i]
            if n.kind in ("data_mut", "cs_write", "count", "attr_store", "raise") or is_res_read(n) or is_res_write(n) \
                    or (n.kind == "enter" and n["fname"] in ("_load_from_resource", "_load_from_buffer", "_save_to_resource", "_save_to_buffer", "_update", "_flush", "_flush_buffer")):
                out.add(i)
        return out
    sets = [effects(a) for a in arms]
    return any(s_ != sets[0] for s_ in sets[1:])


def _outer_load(n):
    return (n.kind == "enter" and n["fname"] == "_load" and n["recv"] is not None and n["recv"].kind == "inst" and n["recv"].args[2] == "T"
            and not any(q.split(".")[-1] == "_load" for q, _ in n.stack[:-1]))


def check_one_snapshot(g, st, want, rep):
    """C14.e: a read is answered from ONE loaded snapshot.  Violation = a path  load -> read of the tree's data ->
    another load of the same tree -> read of the data  with the collection lock not held across: what was read from
    the first snapshot (a membership test, an element) need not hold in the second one, so the reader can fail or
    return a value the collection never had (`if key in self: return self[key]`; one load per element in a search)."""
    nodes = live(g)
    L = {n.id for n in nodes if _outer_load(n)}
    R = {n.id for n in nodes if n.kind == "data_read" and n["owner"].kind == "inst" and n["owner"].args[2] == "T" and not n.in_extent("_load")}
    entry_func = g.nodes[g.entry]["func"]
    bad = None
    if L and R:
        r1s = R & g.reachable_from(list(L))
        r1s = {r for r in r1s if not all(want in held_ids(s_) for s_ in st.get(r, [()]))}
        if r1s:
            s2 = g.reachable_from([y for r in r1s for (y, _) in g.succ[r]])
            l2s = {l for l in (L & s2) if not all(want in held_ids(s_) for s_ in st.get(l, [()]))}
            if l2s:
                r2s = R & g.reachable_from(list(l2s))
                if r2s:
                    # reconstruct one concrete witness
                    for r1 in sorted(r1s):
                        p2 = None
                        for l2 in sorted(l2s):
                            p2 = g.path(r1, [l2])
                            if p2 and len(p2) > 1:
                                p3 = g.path(l2, sorted(r2s))
                                if p3:
                                    bad = (r1, l2, (g.path(g.entry, [r1]) or []) + p2[1:] + p3[1:])
                                    break
                        if bad:
                            break
    if bad is None:
        rep.ok("C14.e")
    else:
        r1, l2, w = bad
        n1, n2 = g.nodes[r1], g.nodes[l2]
        rep.fail("C14.e", norm_key("C14.e", entry_func, "two-snapshots"),
                 f"{entry_func} reads the data (`{n1.stmt}` in {n1.func}), then loads the tree again (`{n2.stmt}`) and reads the data again, without holding the "
                 f"collection lock across: a concurrent writer between the two loads makes the read fail or return a value the collection never had",
                 g.witness(w), g.label)
