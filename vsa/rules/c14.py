"""C14 - readers next to writers: reads must not mutate shared tree state or
consult the shared suspend flag without the collection lock."""
from ..engine import *
from ..graph import Val, show
from ..report import norm_key
from .. import AnalysisError
from . import c13

META = {
    "level": "other",
    "explanation": (
        "Lockset analysis of every READ entry point x thread-safe class x {root,nested} x buffering mode with threading on: (a) every mutation of the shared tree performed on behalf "
        "of a read (the in-place merge done by _load, including list growth) and every change of the tree's suspend counter holds the root's collection lock - or the read performs "
        "none; (b) every test of the suspend counter that decides to skip a load is made under that lock (otherwise thread B skips its load because thread A is inside a suspended "
        "section); (c) buffered reads access class-wide buffer state only under the buffer lock (C13.a restricted to readers). Returned values under interleavings are NOT decided."
    ),
    "rule": "contexts = thread-safe class x reader x {root,nested} x mode; non-trivial = the read merges into the shared tree",
    "trusted_base": ["engine lock identity and CFG"],
    "assumptions": ["threading support active"],
}


def units(A, tier):
    return [("class", c.name) for c in A.concrete() if A.supports_threading(c)]


def innermost_load(n):
    for q, r in reversed(n.stack):
        if q.split(".")[-1] in ("_load", "_load_from_buffer", "_flush"):
            return q
    return n.func


def run_unit(A, unit, rep, tier):
    kind, name = unit
    cls = A.model.find_class(name)
    eps = A.entry_points(cls)
    for m in A.readers(cls):
        f = eps[m]
        for rho in ("root", "nested"):
            for mu in A.modes(cls):
                b, g = A.graph(cls, m, rho, mu)
                shared = [n for n in live(g) if (n.kind == "data_mut" and n["owner"].args[2] == "T") or (n.kind == "count" and "_suspend_sync" in str(n["counter"]) and n["counter"][0] == "T")]
                tests = [n for n in live(g) if n.kind == "branch" and any(x.kind == "obj" and "_suspend_sync" in str(x.args[1]) and x.args[1][0] == "T" for x in n["cond"].walk())]
                rep.context(g.label, bool(shared))
                st = lock_dataflow(g)
                want = "col:root:T"
                for n in shared:
                    if all(want in held_ids(s) for s in st.get(n.id, [()])):
                        rep.ok("C14.a")
                    else:
                        where = innermost_load(n)
                        what = "mutates the shared tree" if n.kind == "data_mut" else "changes the tree's suspend counter"
                        rep.fail("C14.a", norm_key("C14.a", where, "merge" if n.kind == "data_mut" else "suspend-counter"),
                                 f"a read operation {what} (`{n.stmt}` in {n.func}, reached through {where}) without holding the collection lock: a concurrent writer's "
                                 f"update can be merged away or its save skipped", g.witness(g.path(g.entry, [n.id])), g.label)
                # (d) the backend is read while the tree-wide suspend counter is NOT raised: while it is raised every
                #     other thread's load and save on this tree are skipped, so raising it across I/O turns the short
                #     merge window into a long one
                from .c10 import count_dataflow
                cs = count_dataflow(g)
                for n in live(g):
                    if n.kind == "enter" and n["fname"] == "_load_from_resource" and recv_is_root_T(n):
                        raised = any(v > 0 for s_ in cs.get(n.id, [()]) for k_, v in s_ if "_suspend_sync" in k_ and k_.startswith("('T'"))
                        if not raised:
                            rep.ok("C14.d")
                        else:
                            caller = n.stack[-2][0] if len(n.stack) > 1 else n.func
                            rep.fail("C14.d", norm_key("C14.d", caller, n.stmt if n.stmt else "load"),
                                     f"{caller} reads the backend while the tree-wide suspend counter is raised: for the whole duration of the I/O every other thread's save on this tree is silently skipped (a writer returns normally and its update is lost)",
                                     g.witness(g.path(g.entry, [n.id])), g.label)
                for n in tests:
                    if all(want in held_ids(s) for s in st.get(n.id, [()])):
                        rep.ok("C14.b")
                    else:
                        rep.fail("C14.b", norm_key("C14.b", n.func, "suspend-test"),
                                 f"`{n.stmt}` in {n.func} consults the tree-wide suspend counter without the collection lock: while another thread is inside a suspended section this "
                                 f"read silently skips its load", g.witness(g.path(g.entry, [n.id])), g.label)
    if A.is_buffered(cls):
        c13.run_unit(A, unit, rep, tier, readers_only=True, rule="C14.c")
