"""C10 - no lock leak, no deadlock: acquire/release pairing on all exits,
acyclic lock order, grow-only lock table."""
import ast

from ..engine import *
from ..graph import Val, show
from ..report import norm_key
from ..model import Prop, ABC_MOD
from .. import AnalysisError

META = {
    "level": "other",
    "explanation": (
        "(a) Lock-state dataflow over the inlined automaton (with exception edges; Python does not call __exit__ when __enter__ raises) of every public entry point and property "
        "setter x thread-safe class x {root,nested} x buffering mode: the set of held locks is empty at the normal AND at the exceptional exit - exhaustive over all paths. "
        "(b) the suspend / buffering counters are balanced at both exits. (c) lock-order graph: an edge A->B for every acquisition of B while A is held, collected over all "
        "contexts; a cycle between lock kinds is a potential deadlock and the minority direction's sites are reported (may-analysis). (d) the per-class lock table only grows: no "
        "pop/del/rebinding of entries outside class initialisation (other objects bound to the old key keep working); (e) a lock is added to the table, and the test that it is missing is made, "
        "under the class lock; (g) no lock operation depends on a test of the (thread-shared) buffering counters. (c') two locks of the same kind: no collection lock is acquired while the collection lock of ANOTHER tree is held unless a class-wide lock taken first serialises both "
        "threads; and, because mutators read their argument under their own collection lock, no read path acquires a collection lock (a.update(b) || b.update(a)). (e) an entry is added to the lock table only under the class lock and only after a test, under that lock, that the resource has no lock yet (never unconditionally). Liveness in general is NOT decided."
    ),
    "rule": "contexts = thread-safe class x (mutators + readers + property setters) x {root,nested} x mode; non-trivial = acquires a lock",
    "trusted_base": ["engine CFG incl. exception edges and with/try/finally lowering", "lock-table lookups do not raise (guaranteed by C10.d itself)"],
    "assumptions": ["threading support active"],
}


def units(A, tier):
    return [("class", c.name) for c in A.concrete() if A.supports_threading(c)] + [("table", None)]


def setters(A, cls):
    out = {}
    for k in cls.mro:
        for name, v in getattr(k, "cdict", {}).items():
            if isinstance(v, Prop) and v.fset is not None and name not in out:
                owner, cur = A.model.lookup(cls, name)
                if cur is v:
                    out[name] = v.fset
    return out


def count_dataflow(g):
    def apply(n, st):
        if n.kind == "count" and n["delta"] is not None:
            d = dict(st)
            k = str(n["counter"])
            d[k] = d.get(k, 0) + n["delta"]
            if abs(d[k]) > 6:
                return st
            return tuple(sorted(d.items()))
        return st

    return g.lock_states(apply, init=())


def run_unit(A, unit, rep, tier):
    kind, name = unit
    if kind == "table":
        return check_table(A, rep)
    cls = A.model.find_class(name)
    eps = A.entry_points(cls)
    jobs = [(m, eps[m], None) for m in sorted(eps)]
    for pname, fset in setters(A, cls).items():
        jobs.append((pname + ".setter", fset, fset))
    same_kind = {}
    muts_, reads_ = set(A.mutators(cls)), set(A.readers(cls))
    for m, f, func in jobs:
        for rho in ("root", "nested"):
            if func is not None and rho == "nested":
                continue
            for mu in A.modes(cls):
                if func is not None:
                    b, g = A.graph(cls, m, rho, mu, func=func)
                else:
                    b, g = A.graph(cls, m, rho, mu)
                locks = [n for n in live(g) if n.kind == "lock"]
                rep.context(g.label, bool(locks))
                st = lock_dataflow(g)
                leaked = {}
                for exit_id, what in ((g.exit, "returns"), (g.exc_exit, "raises")):
                    for s in st.get(exit_id, []):
                        for tok in s:
                            leaked.setdefault((tok, what), exit_id)
                if not leaked:
                    rep.ok("C10.a", f"C10.a {g.label}: no lock held at the normal or the exceptional exit ({len(locks)} lock events)")
                for (tok, what), exit_id in leaked.items():
                    lid, afunc, astmt = tok
                    kind_ = lid.split(":")[0]
                    acq = [n for n in locks if n["op"] == "+" and n.func == afunc and n.stmt == astmt and lock_id(n["lock"]) == lid]
                    minus = [n.id for n in locks if n["op"] == "-" and lock_id(n["lock"]) == lid]
                    w = None
                    for a in acq:
                        w = g.path(a.id, [exit_id], avoid=minus)
                        if w:
                            break
                    rep.fail("C10.a", norm_key("C10.a", afunc, astmt, kind_, what),
                             f"the {kind_} lock acquired by `{astmt}` in {afunc} is still held when the operation {what} "
                             f"(no release on that path): every other thread then blocks forever on this resource",
                             g.witness(w or []), g.label)
                # (f) re-pointing the object happens under its collection lock (an operation in flight on another
                #     thread must not see the lock id change between its acquire and its release)
                if func is not None:
                    for n in live(g):
                        if n.kind == "attr_store" and n["name"] == "_filename":
                            if all("col:root:T" in held_ids(s_) for s_ in st.get(n.id, [()])):
                                rep.ok("C10.f", f"C10.f {g.label}: `{n.stmt}` runs under the object's collection lock")
                            else:
                                rep.fail("C10.f", norm_key("C10.f", n.func, n.stmt),
                                         f"{n.func}: `{n.stmt}` changes the resource (and with it the lock id) of the object without holding its collection lock: an operation in flight on another thread releases a different lock than it acquired",
                                         [n.where() + ": " + n.stmt], g.label)
                # (b) counters balanced
                cs = count_dataflow(g)
                bad = None
                for exit_id, what in ((g.exit, "returns"), (g.exc_exit, "raises")):
                    for s in cs.get(exit_id, []):
                        for k, v in s:
                            if v != 0 and "_suspend_sync" in k:
                                bad = (k, v, what)
                if bad is None:
                    rep.ok("C10.b", f"C10.b {g.label}: suspend counter balanced at both exits")
                else:
                    rep.fail("C10.b", norm_key("C10.b", f.qualname, bad[2]), f"{f.qualname}: the tree's suspend counter is {bad[1]:+d} when the operation {bad[2]}; later loads/saves are skipped", [], g.label)
                # (g) a lock is not acquired / released depending on thread-shared counter state: the buffering counters
                #     can be changed by another thread between the acquire-side test and the release-side test, so the
                #     two evaluations may disagree (acquired but never released, or released without being held)
                cond_lock = False
                for bnode in live(g):
                    if bnode.kind != "branch":
                        continue
                    if not any(x.kind == "obj" and b.is_counter(x) for x in bnode["cond"].walk()):
                        continue
                    for n in locks:
                        if n.stack == bnode.stack and n.loc[0] == bnode.loc[0] and bnode.span[0] < n.loc[1] <= bnode.span[1]:
                            rep.fail("C10.g", norm_key("C10.g", n.func, bnode.stmt),
                                     f"{n.func}: the lock operation `{n.stmt}` depends on `{bnode.stmt}`, a test of buffering state that other threads change: the matching operation on the other side "
                                     "of the critical section evaluates it again and may decide differently - the lock stays held forever (or an un-acquired lock is released)",
                                     [n.where() + ": " + n.stmt], g.label)
                            cond_lock = True
                            break
                if locks and not cond_lock:
                    rep.ok("C10.g")
                # (c') facts for the symmetric-deadlock rule: a mutator that reads an ARGUMENT (possibly another synced
                #      collection) while holding its own collection lock, and a reader that takes a collection lock
                if func is None and m in muts_:
                    for n in live(g):
                        if n.kind == "call_unknown" and n["recv"] is not None and n["recv"].kind == "param" and n["method"] in FOREIGN_READS \
                                and any("col:root:T" in held_ids(s_) for s_ in st.get(n.id, [()])):
                            rep.facts.append(["argread", f.qualname, n.stmt])
                            break
                if func is None and m in reads_:
                    for n in locks:
                        if n["op"] == "+" and lock_id(n["lock"]).startswith("col:") and any(all(t_[0].startswith("col:") for t_ in s_) for s_ in st.get(n.id, [()])):
                            rep.facts.append(["readlock", f.qualname, n.func, n.stmt])
                            break
                # (c) lock-order edges
                for n in locks:
                    if n["op"] != "+":
                        continue
                    inner = lock_id(n["lock"])
                    for s in st.get(n.id, []):
                        if any(tok[0] == inner for tok in s):
                            continue  # re-entrant acquisition of an RLock: no new ordering
                        for tok in s:
                            if tok[0] != inner:
                                rep.facts.append(["edge", kindof(tok[0]), kindof(inner), tok[1], n.func, f.qualname])
                                gate = any(not t2[0].startswith("col:") for t2 in s[: s.index(tok)])  # a class-wide lock taken first serialises both threads
                                if tok[0].startswith("col:") and inner.startswith("col:") and tok[0].split(":", 2)[2] != inner.split(":", 2)[2] and not gate:
                                    # two locks of the same kind (the collection locks of two different trees) nested:
                                    # the same code running with the roles exchanged takes them in the opposite order
                                    key = norm_key("C10.c", "col->col", f.qualname, n.func)
                                    if key not in same_kind:
                                        same_kind[key] = (n, tok, g)

    for key, (n, tok, g) in sorted(same_kind.items()):
        rep.fail("C10.c", key,
                 f"{n.func}: `{n.stmt}` acquires the collection lock of another collection while the collection lock taken at {tok[1]} is held: the same operation running on another thread with the two "
                 "collections exchanged (a.update(b) / b.update(a)) takes the two locks in the opposite order and both threads block forever",
                 g.witness(g.path(g.entry, [n.id]) or []), g.label)
    if not same_kind:
        rep.ok("C10.c", f"C10.c {cls.name}: no collection lock is acquired while the collection lock of another tree is held")


FOREIGN_READS = {"items", "keys", "values", "get", "__getitem__", "__iter__", "__len__", "__contains__", "copy"}


def kindof(lid):
    return lid.split(":")[0] if lid.startswith("col:") else lid


def finalize(A, rep, tier):
    edges = {}
    for f in rep.facts:
        if f[0] == "edge":
            _, a, b, outer_site, inner_site, entry = f
            if a == b:
                continue
            edges.setdefault((a, b), set()).add((outer_site, inner_site, entry))
    done = set()
    for (a, b), sites in sorted(edges.items()):
        if (b, a) in edges and (b, a) not in done:
            done.add((a, b))
            fwd, back = edges[(a, b)], edges[(b, a)]
            # the minority direction (by distinct outer acquisition sites) is the deviant one
            fo = {s[0] for s in fwd}
            bo = {s[0] for s in back}
            (da, db, dev) = (a, b, fwd) if len(fo) <= len(bo) else (b, a, back)
            if len(fo) == len(bo):
                dev_all = [(a, b, fwd), (b, a, back)]
            else:
                dev_all = [(da, db, dev)]
            for (x, y, ss) in dev_all:
                for outer in sorted({s[0] for s in ss}):
                    inner = sorted({s[1] for s in ss if s[0] == outer})
                    entries = sorted({s[2] for s in ss if s[0] == outer})
                    rep.fail("C10.c", norm_key("C10.c", f"{x}->{y}", outer),
                             f"lock-order inversion: {outer} holds the {x} lock while acquiring the {y} lock (in {', '.join(inner)}), but elsewhere the {y} lock is held while the {x} lock "
                             f"is acquired; two threads taking them in opposite order deadlock",
                             [f"entry points: {', '.join(entries[:8])}"], f"{x}->{y}")
        elif (b, a) not in edges:
            rep.ok("C10.c", f"C10.c lock order {a} -> {b}: no opposite edge ({len(sites)} site(s))")
    if not edges:
        rep.undecided_note("C10.c", "no nested lock acquisition found")
    # symmetric deadlock through an argument: a.update(b) holds a's lock while reading b; if reading b takes b's
    # collection lock, b.update(a) on another thread holds b's lock and waits for a's
    argreads = sorted({(x[1], x[2]) for x in rep.facts if x[0] == "argread"})
    readlocks = sorted({(x[1], x[2], x[3]) for x in rep.facts if x[0] == "readlock"})
    if argreads and readlocks:
        seen_sites = set()
        for entry, fn, stmt in readlocks:
            if (fn, stmt) in seen_sites:
                continue
            seen_sites.add((fn, stmt))
            rep.fail("C10.c", norm_key("C10.c", "read-takes-lock", fn, stmt),
                     f"read operations acquire a collection lock (`{stmt}` in {fn}, e.g. through {entry}) while mutators read their argument under their own collection lock "
                     f"(`{argreads[0][1]}` in {argreads[0][0]}): a.update(b) on one thread and b.update(a) on another each hold their own lock and wait for the other's - both block forever",
                     [f"readers: {', '.join(sorted({r[0] for r in readlocks})[:8])}", f"mutators reading an argument under the lock: {', '.join(sorted({a[0] for a in argreads})[:8])}"], "readers x mutators")
    elif argreads:
        rep.ok("C10.c", f"C10.c reads are lock-free, so the {len(argreads)} mutator(s) that read an argument under their own collection lock cannot wait for another collection's lock")


def check_table_writes_locked(A, rep):
    """(e) entries are added to the lock table only under the class lock (check-then-create is atomic)."""
    from ..interp import Builder, Ctx
    for cls in A.concrete():
        if not A.supports_threading(cls) or A.is_list(cls) or cls.is_subclass_of("AttrDict"):
            continue
        jobs = [("__init__", None, {"parent": Val("const", None)})]
        for pname, fset in setters(A, cls).items():
            jobs.append((pname + ".setter", fset, None))
        for m_, func, kw in jobs:
            b, g = A.graph(cls, m_, "root", "none", func=func, kwargs=kw)
            st = lock_dataflow(g)
            tables = b.lock_tables()
            for n in live(g):
                if n.kind == "cs_write" and n["name"] in tables and n["op"] == "setitem":
                    # the test that decides to create the lock must be made under the class lock as well
                    # (double-checked creation without the re-check lets a second thread replace a lock in use)
                    tests = [t for t in live(g) if t.kind == "branch" and any(x.kind == "cattr" and x.args[1] in tables for x in t["cond"].walk())]
                    locked_t = [t.id for t in tests if all("cls" in held_ids(s_) for s_ in st.get(t.id, [()]))]
                    racy = None
                    for t in tests:
                        if t.id in locked_t:
                            continue
                        w_ = g.path(t.id, [n.id], avoid=locked_t)
                        if w_:
                            racy = (t, w_)
                            break
                    if racy is not None:
                        t, w_ = racy
                        rep.fail("C10.e", norm_key("C10.e", n.func, "unlocked-test"),
                                 f"{n.func}: `{t.stmt}` decides without the class lock that the resource has no lock yet, and `{n.stmt}` then installs one without re-checking: a thread that lost the race replaces a lock "
                                 "another thread already holds - that thread releases the wrong lock, the old one is never released and its waiters block forever",
                                 g.witness(w_), g.label)
                    elif g.must_pass(g.entry, [n.id], locked_t) is not None:
                        rep.fail("C10.e", norm_key("C10.e", n.func, "unconditional"),
                                 f"{n.func}: `{n.stmt}` installs a new lock for the resource without testing (under the class lock) that it has none yet: the lock other objects bound to the same resource "
                                 "are holding or waiting for is replaced - a writer in progress is no longer excluded (lost update) and releases a lock it never acquired",
                                 g.witness(g.must_pass(g.entry, [n.id], locked_t)), g.label)
                    elif all("cls" in held_ids(s_) for s_ in st.get(n.id, [()])):
                        rep.ok("C10.e", f"C10.e {g.label}: `{n.stmt}` adds the lock under the class lock")
                    else:
                        rep.fail("C10.e", norm_key("C10.e", n.func, n.stmt),
                                 f"{n.func}: `{n.stmt}` adds an entry to the per-class lock table without the class lock: two threads opening the same resource can each install a lock, and one of them then works without mutual exclusion",
                                 [n.where() + ": " + n.stmt], g.label)


def check_table(A, rep):
    check_table_writes_locked(A, rep)
    m = A.model
    from ..interp import Builder, Ctx

    b = Builder(m, Ctx(A.concrete()[0]))
    tables = b.lock_tables()
    if not tables:
        raise AnalysisError("anchor: no per-class lock table (a class attribute into which RLock() objects are stored) found")
    hooks = getattr(m, "hook_funcs", set())
    n_sites = 0
    for f in m.functions:
        if f.module.name == ABC_MOD:
            continue
        for n in ast.walk(f.node):
            bad = None
            if isinstance(n, ast.Call) and isinstance(n.func, ast.Attribute) and n.func.attr in ("pop", "popitem", "clear") and isinstance(n.func.value, ast.Attribute) and n.func.value.attr in tables:
                bad = n
            elif isinstance(n, ast.Delete):
                for t in n.targets:
                    if isinstance(t, ast.Subscript) and isinstance(t.value, ast.Attribute) and t.value.attr in tables:
                        bad = n
            elif isinstance(n, ast.Assign) and f not in hooks:
                for t in n.targets:
                    if isinstance(t, ast.Attribute) and t.attr in tables:
                        bad = n
            if isinstance(n, (ast.Subscript,)) and isinstance(n.value, ast.Attribute) and n.value.attr in tables:
                n_sites += 1
            if bad is not None:
                st = bad
                while not isinstance(st, ast.stmt):
                    st = st._parent
                from ..interp import stmt_text

                rep.fail("C10.d", norm_key("C10.d", f.qualname, stmt_text(st)),
                         f"{f.qualname} removes or replaces an entry of the per-class lock table (`{stmt_text(st)}`): other objects still bound to the old key fail to find their lock",
                         [f"{f.module.path}:{st.lineno}: {stmt_text(st)}"], f.qualname)
    rep.context("lock-table", True)
    rep.floor("lock-table access sites", n_sites, 2)
    if not any(k.startswith("C10.d") for k in rep.findings):
        rep.ok("C10.d", f"C10.d lock table(s) {sorted(tables)}: {n_sites} access sites, none removes or rebinds an entry")
