"""C13 - buffered collections under concurrent threads: guarded-by analysis
of the class-wide buffer state."""
from ..engine import *
from ..graph import Val, show
from ..report import norm_key
from .. import AnalysisError

# guarded-by table (slots filled from the code, confirmed by reading):
GUARDED = {
    "_buffer": "the data buffer and every field of its entries; inserted/rewritten/deleted under the buffer lock in _save_to_buffer/_flush",
    "_CURRENT_BUFFER_SIZE": "size counter; every +=/-= sits next to a buffer change under the buffer lock",
    "_buffered_collections": "registry of objects to flush; popitem() loop in _flush_buffer runs under the buffer lock",
}
RACY_BY_DESIGN = {"_BUFFER_CAPACITY": "monotone trigger read without the lock; a stale value only delays or advances a forced flush"}
# Reasoned exceptions (one line each; anything else unguarded is reported):
#  E1  a bare *read* of the size counter as operand of a capacity-guard comparison is the same monotone trigger
#      as _BUFFER_CAPACITY: a stale value only delays / advances a forced flush, which itself runs under the lock.
#  E2  shared-memory strategy, backend-wide context: re-pointing _data at the entry's contents after the lock was
#      released reads an entry that cannot disappear meanwhile - inside a backend-wide context entries are only
#      removed by the non-forced flush at context exit (forced flushes retain them: retain_in_force=True), which is
#      outside the property's scope ("inside a backend-wide buffered context").  The exception is therefore limited
#      to mu = backend and to classes whose _flush_buffer passes retain_in_force=True (checked, not assumed).


def exception_for(A, cls, g, n, mu):
    if n.kind == "cs_read" and n["name"] == "_CURRENT_BUFFER_SIZE" and n["op"] == "read":
        # E1: the read feeds only a capacity-guard branch of the same statement
        from .c17 import capacity_guard
        if any(b.kind == "branch" and b.stmt == n.stmt and b.stack == n.stack and capacity_guard(b) for b in live(g)):
            return "E1"
    if mu == "backend" and n.kind == "cs_read" and n["name"] == "_buffer" and n["op"] in ("getitem", "read") and cls.is_subclass_of("SharedMemoryFileBufferedCollection"):
        repoint = any(x.kind == "data_mut" and x["op"] == "rebind" and x.stmt == n.stmt and x.stack == n.stack for x in live(g))
        if repoint and retains_in_force(A, cls):
            return "E2"
    return None


def retains_in_force(A, cls):
    """Decided on the automaton of the class-wide flush with force=True (not on a keyword in the source):
    every collection flushed by force is put back into the set of retained collections before the loop goes on,
    and a forced flush never removes an entry from the buffer."""
    key = ("retains_in_force", cls.name)
    if key in A.cache:
        return A.cache[key]
    b_, g = A.graph(cls, "_flush_buffer", "root", "none", recv=Val("cls", (cls,)), args=[Val("const", True)])
    lv = live(g)
    heads = [n.id for n in lv if n.kind == "join" and n["what"] == "loop-head" and own(n)]
    calls = [n for n in lv if is_enter(n, "_flush") and own_child(n)]
    # every collection flushed by force is stored among the retained ones in the same iteration (before or after
    # the flush): no cycle  loop head -> _flush(c) -> loop head  without a store of that same c
    retained = bool(calls) and bool(heads)
    for c_ in calls:
        # the flushed collection is a member taken from the registry (abstract instance of another tree, 'O'); a
        # matching store puts a value taken from the registry into a local mapping
        stores = [n.id for n in lv if n.kind == "local_mut" and n["op"] == "setitem" and own(n) and n["value"] is not None
                  and (n["value"] == c_["recv"] or any(x.kind == "cattr" and x.args[1] == "_buffered_collections" for x in n["value"].walk()))]
        before = all(g.path(h, [c_.id], avoid=stores) is None for h in heads) if stores else False
        after = g.path(c_.id, heads + [g.exit], avoid=stores) is None if stores else False
        if not (before or after):
            retained = False
    removes = [n for n in lv if n.kind == "cs_write" and n["name"] == "_buffer" and (n["op"] == "delitem" or n["op"] in ("call:pop", "call:popitem", "call:clear") or n["op"] == "rebind")]
    res = retained and not removes
    A.cache[key] = res
    return res


META = {
    "level": "other",
    "explanation": (
        "Guarded-by (lockset) analysis, context sensitive in the entry point: for every public entry point x buffered class x {root,nested} inside a backend-wide or per-object "
        "buffered context with threading on, every read or write of the class-wide buffer state (" + ", ".join(sorted(GUARDED)) + ") must execute with the class's buffer lock "
        "in the lockset on all paths (C13.a; this includes the rebinding of the registry in the flush loop, C13.c). _BUFFER_CAPACITY is read racily by "
        "design. Serializability of outcomes over schedules is NOT decided."
    ),
    "rule": "contexts = buffered class x entry point x {root,nested} x {obj,backend}; non-trivial = touches class-wide buffer state; obligation = one access site in one context",
    "trusted_base": ["engine lock identity and CFG", "guarded-by table frozen in the checker"],
    "assumptions": ["threading support active"],
}

READERS_ONLY = False
PROP = "C13"


def units(A, tier):
    return [("class", c.name) for c in A.concrete() if A.is_buffered(c) and A.supports_threading(c)]


def state_accesses(g):
    return [n for n in live(g) if n.kind in ("cs_read", "cs_write") and n["name"] in GUARDED]


def run_unit(A, unit, rep, tier, readers_only=False, rule="C13"):
    kind, name = unit
    cls = A.model.find_class(name)
    eps = A.entry_points(cls)
    names = A.readers(cls) if readers_only else sorted(eps)
    n_sites = 0
    sub = rule + ".a" if rule == "C13" else rule
    for m in names:
        f = eps[m]
        for rho in ("root", "nested"):
            for mu in ("backend",):  # the property's scope: inside a backend-wide buffered context
                b, g = A.graph(cls, m, rho, mu)
                acc = state_accesses(g)
                rep.context(g.label, bool(acc))
                if not acc:
                    continue
                st = lock_dataflow(g)
                # (d) a forced flush merges into / saves OTHER collections of the class: their trees may only be
                #     mutated under the buffer lock (which every buffered mutator of that collection holds first)
                for n in live(g):
                    if n.kind == "data_mut" and n["owner"].kind == "inst" and n["owner"].args[2] == "O":
                        if all(("buf" in held_ids(s_)) or ("col:root:O" in held_ids(s_)) for s_ in st.get(n.id, [()])):
                            rep.ok(rule + ".d" if rule == "C13" else rule)
                        else:
                            rep.fail(rule + ".d" if rule == "C13" else rule, norm_key(rule + ".d" if rule == "C13" else rule, n.func, n.stmt, "other-tree"),
                                     f"`{n.stmt}` in {n.func} mutates the tree of another buffered collection (during a flush) while holding neither the buffer lock nor that collection's lock",
                                     g.witness(g.path(g.entry, [n.id])), g.label)
                for n in acc:
                    n_sites += 1
                    states = st.get(n.id, [()])
                    if all("buf" in held_ids(s) for s in states):
                        rep.ok(sub)
                        continue
                    ex = exception_for(A, cls, g, n, mu)
                    if ex:
                        rep.ok(sub)
                        key_ = f"{ex}: {n.func}: `{n.stmt}`"
                        if key_ not in rep.notes:
                            rep.notes.append(key_)
                        continue
                    rep.fail(sub, norm_key(sub, n.func, n.stmt, n["name"]),
                             f"class-wide buffer state `{n['name']}` is accessed by `{n.stmt}` in {n.func} without the buffer lock on some path; "
                             f"a concurrent buffered operation can interleave (lost registration / torn counter / stale entry)",
                             g.witness(g.path(g.entry, [n.id])), g.label)
    rep.floor(f"buffer-state access sites reached from {cls.name}", n_sites, 9)
