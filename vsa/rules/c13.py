"""C13 - buffered collections under concurrent threads: guarded-by analysis
of the class-wide buffer state."""
from ..engine import *
from ..graph import Val, show
from ..report import norm_key
from .. import AnalysisError

# guarded-by table (slots filled from the code, confirmed by reading):
GUARDED = {
    "_buffer": "the data buffer and every field of its entries; inserted/rewritten/deleted under the buffer lock in _save_to_buffer/_flush",
    "_CURRENT_BUFFER_SIZE": "size counter; every +=/-= sits next to a buffer change under the buffer lock",
    "_buffered_collections": "registry of objects to flush; popitem() loop in _flush_buffer runs under the buffer lock",
}
RACY_BY_DESIGN = {"_BUFFER_CAPACITY": "monotone trigger read without the lock; a stale value only delays or advances a forced flush"}

META = {
    "level": "other",
    "explanation": (
        "Guarded-by (lockset) analysis, context sensitive in the entry point: for every public entry point x buffered class x {root,nested} inside a backend-wide or per-object "
        "buffered context with threading on, every read or write of the class-wide buffer state (" + ", ".join(sorted(GUARDED)) + ") must execute with the class's buffer lock "
        "in the lockset on all paths (C13.a; this includes the rebinding of the registry in the flush loop, C13.c). _BUFFER_CAPACITY is read racily by "
        "design. Serializability of outcomes over schedules is NOT decided."
    ),
    "rule": "contexts = buffered class x entry point x {root,nested} x {obj,backend}; non-trivial = touches class-wide buffer state; obligation = one access site in one context",
    "trusted_base": ["engine lock identity and CFG", "guarded-by table frozen in the checker"],
    "assumptions": ["threading support active"],
}

READERS_ONLY = False
PROP = "C13"


def units(A, tier):
    return [("class", c.name) for c in A.concrete() if A.is_buffered(c) and A.supports_threading(c)]


def state_accesses(g):
    return [n for n in live(g) if n.kind in ("cs_read", "cs_write") and n["name"] in GUARDED]


def run_unit(A, unit, rep, tier, readers_only=False, rule="C13"):
    kind, name = unit
    cls = A.model.find_class(name)
    eps = A.entry_points(cls)
    names = A.readers(cls) if readers_only else sorted(eps)
    n_sites = 0
    sub = rule + ".a" if rule == "C13" else rule
    for m in names:
        f = eps[m]
        for rho in ("root", "nested"):
            for mu in ("obj", "backend"):
                b, g = A.graph(cls, m, rho, mu)
                acc = state_accesses(g)
                rep.context(g.label, bool(acc))
                if not acc:
                    continue
                st = lock_dataflow(g)
                for n in acc:
                    n_sites += 1
                    states = st.get(n.id, [()])
                    if all("buf" in held_ids(s) for s in states):
                        rep.ok(sub)
                        continue
                    rep.fail(sub, norm_key(sub, n.func, n.stmt, n["name"]),
                             f"class-wide buffer state `{n['name']}` is accessed by `{n.stmt}` in {n.func} without the buffer lock on some path; "
                             f"a concurrent buffered operation can interleave (lost registration / torn counter / stale entry)",
                             g.witness(g.path(g.entry, [n.id])), g.label)
    rep.floor(f"buffer-state access sites reached from {cls.name}", n_sites, 9)
