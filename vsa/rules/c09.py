"""C09 - concurrent writers: one critical section on the root's lock per
mutator (necessary lock discipline; linearizability itself is not decided)."""
from ..engine import *
from ..graph import Val, show
from ..report import norm_key
from .. import AnalysisError

META = {
    "level": "other",
    "explanation": (
        "Lock discipline that linearizability of writers needs, decided by a lockset dataflow over the inlined automaton of every public mutator x thread-safe class x "
        "{root,nested} x buffering mode with threading on: (a) the root load, every mutation of the tree and the save all execute while the ROOT's collection lock is held, in ONE "
        "continuous hold (no release followed by further load/mutate/save - composite mixin mutators built from several public calls fail this); (b) every collection lock acquired "
        "on behalf of a nested receiver is the root's (a nested node's own lock id is None: one lock shared by all nested nodes of all files); (c) the save replaces the file atomically "
        "when threading is on; (a') building a nested child of the tree (which raises the tree-wide suspend counter in the child's constructor) counts as an event of the "
        "critical section; (d) a writer tests the tree-wide suspend counter only under the collection lock. Each clause has a one-preemption counterexample when broken. Linearizability over all schedules is NOT decided."
    ),
    "rule": "contexts = thread-safe class x mutator x {root,nested} x mode with threading enabled; non-trivial = has a mutation; events = root load, mutation, save",
    "trusted_base": ["engine lock identity resolution (lock table key = owner's lock id)", "RLock semantics"],
    "assumptions": ["threading support active (default on POSIX)"],
}


def units(A, tier):
    return [("class", c.name) for c in A.concrete() if A.supports_threading(c)] + [("atomic", None)]


def ctor_raises_suspend(A):
    """Read from the code, not assumed: constructing a nested node runs `with self._suspend_sync:` in the container
    class's __init__, and a nested node's `_suspend_sync` is its root's - so building a child of a tree raises that
    tree's (thread-shared) suspend counter for the duration of the conversion."""
    if "ctor_raises_suspend" in A.cache:
        return A.cache["ctor_raises_suspend"]
    import ast as _ast
    m = A.model
    uses = False
    for c in m.class_order:
        if c.name in ("SyncedDict", "SyncedList") or (c.is_subclass_of("SyncedCollection") and "__init__" in c.methods):
            f = c.methods.get("__init__")
            if f is None:
                continue
            for n in _ast.walk(f.node):
                if isinstance(n, _ast.With):
                    for it in n.items:
                        if isinstance(it.context_expr, _ast.Attribute) and it.context_expr.attr == "_suspend_sync":
                            uses = True
    shared = False
    sc = m.find_class("SyncedCollection")
    for fn in [f for f in m.functions if f.cls is sc]:
        for n in _ast.walk(fn.node):
            if isinstance(n, _ast.Assign) and any(isinstance(t, _ast.Attribute) and t.attr == "_suspend_sync" for t in n.targets) \
                    and isinstance(n.value, _ast.Attribute) and n.value.attr == "_suspend_sync":
                shared = True
    A.cache["ctor_raises_suspend"] = uses and shared
    return uses and shared


def builds_child_of_T(n):
    """A conversion / construction whose `parent` is a node of the receiver's tree."""
    if n.kind not in ("call_pkg", "construct"):
        return False
    if n.kind == "call_pkg" and n["fname"] != "_from_base":
        return False
    kw = dict(n["kwargs"] or ())
    p_ = kw.get("parent")
    return p_ is not None and p_.kind == "inst" and p_.args[2] == "T"


def section_events(g, A=None):
    ev = []
    ctor = A is not None and ctor_raises_suspend(A)
    for n in live(g):
        if ctor and builds_child_of_T(n) and not n.in_extent("_load") and not n.in_extent("_load_from_buffer"):
            ev.append(n)
            continue
        if is_user_mut(n):
            ev.append(n)
        elif n.kind == "enter" and n["fname"] in ("_load_from_resource", "_load_from_buffer", "_save_to_resource", "_save_to_buffer") and recv_is_root_T(n):
            ev.append(n)
        elif n.kind == "count" and n["counter"] == ("T", "_suspend_sync"):
            # the suspend counter is shared by the whole tree and by all threads: while it is
            # raised every other thread's load and save are skipped
            ev.append(n)
    return ev


def run_unit(A, unit, rep, tier):
    kind, name = unit
    if kind == "atomic":
        return check_atomic(A, rep)
    cls = A.model.find_class(name)
    eps = A.entry_points(cls)
    for m in A.mutators(cls):
        f = eps[m]
        for rho in ("root", "nested"):
            for mu in A.modes(cls):
                b, g = A.graph(cls, m, rho, mu)
                ev = section_events(g, A)
                rep.context(g.label, any(is_user_mut(n) for n in ev))
                if not ev:
                    continue
                st = lock_dataflow(g)
                want = "col:root:T"
                # (a1) lockset
                unlocked = [n for n in ev if any(want not in held_ids(s) for s in st.get(n.id, [()]))]
                # (a2) continuity: after a full release of the root lock no further event
                split = None
                for n in live(g):
                    if n.kind == "lock" and n["op"] == "-" and lock_id(n["lock"]) == want:
                        full = any(sum(1 for t in s if t[0] == want) == 1 for s in st.get(n.id, []))
                        if full:
                            r = g.reachable_from([n.id])
                            hit = [e for e in ev if e.id in r]
                            if hit:
                                split = (n, hit[0])
                                break
                if not unlocked and split is None:
                    rep.ok("C09.a", f"C09.a {g.label}: load, {sum(1 for n in ev if is_user_mut(n))} mutation(s) and save lie in one hold of the root's lock")
                else:
                    if unlocked:
                        n = unlocked[0]
                        what = f"`{n.stmt}` in {n.func} executes without the root's collection lock"
                        w = g.path(g.entry, [n.id])
                    else:
                        n, e = split
                        what = f"the root's lock is released at `{n.stmt}` in {n.func} and `{e.stmt}` in {e.func} follows in a second critical section"
                        w = (g.path(g.entry, [n.id]) or []) + (g.path(n.id, [e.id]) or [])[1:]
                    rep.fail("C09.a", norm_key("C09.a", f.qualname, f"rho={rho}"),
                             f"mutator {f.qualname} ({rho} receiver) is not one critical section on the root's lock: {what}; a concurrent writer can interleave and an update is lost",
                             g.witness(w), g.label)
                # (d) the tree-wide suspend counter is shared by all threads: a writer that tests it without the
                #     collection lock may see it raised by a concurrent READ of the same tree and take the branch meant
                #     for "inside a load" (skip validation / the load / the save)
                tests = [n for n in live(g) if n.kind == "branch" and any(x.kind == "obj" and "_suspend_sync" in str(x.args[1]) and x.args[1][0] == "T" for x in n["cond"].walk())]
                for n in tests:
                    if all(want in held_ids(s) for s in st.get(n.id, [()])):
                        rep.ok("C09.d")
                    else:
                        rep.fail("C09.d", norm_key("C09.d", n.func, "suspend-test"),
                                 f"`{n.stmt}` in {n.func} (reached from the mutator {f.qualname}) tests the tree-wide suspend counter without holding the collection lock: a concurrent read of the same tree raises that "
                                 "counter, so the writer takes the 'synchronisation suspended' branch by accident", g.witness(g.path(g.entry, [n.id])), g.label)
                # (b) right lock for nested receivers
                if rho == "nested":
                    wrong = [n for n in live(g) if n.kind == "lock" and n["op"] == "+" and lock_id(n["lock"]).startswith("col:nested")]
                    if not wrong:
                        rep.ok("C09.b", f"C09.b {g.label}: every collection lock taken is the root's")
                    else:
                        n = wrong[0]
                        rep.fail("C09.b", norm_key("C09.b", f.qualname, n.func, n.stmt),
                                 f"{f.qualname} on a nested receiver acquires the nested node's own lock (`{n.stmt}` in {n.func}; its lock id is None, shared by every nested node of every file) "
                                 "instead of the root's, so it does not exclude writers of the same file", g.witness(g.path(g.entry, [n.id])), g.label)


def check_atomic(A, rep):
    """C09.c: with threading on, the save never opens the target for writing."""
    seen = {}
    for cls in A.concrete():
        if A.supports_threading(cls):
            owner, v = A.model.lookup(cls, "_save_to_resource")
            seen.setdefault(v.func, cls)
    for func, cls in seen.items():
        b, g = A.graph(cls, "_save_to_resource", "root", "none", wc=False, threading=True)
        rep.context(g.label, True)
        selfv = Val("inst", (g.ctx.cls,), "root", "T")
        direct = []
        for n in live(g):
            if n.kind == "call_ext" and n["callee"] == "builtins.open" and is_res_write(n):
                path = n["args"][0] if n["args"] else None
                if path is not None and path.kind == "field" and path.args[0] == selfv:
                    direct.append(n)
        repl = [n for n in live(g) if n.kind == "call_ext" and n["callee"] in ("os.replace", "os.rename")]
        if not direct and repl:
            rep.ok("C09.c", f"C09.c {func.qualname}: with threading on the target is only replaced atomically ({len(repl)} replace site(s)), never opened for writing")
        else:
            n = direct[0] if direct else None
            rep.fail("C09.c", norm_key("C09.c", func.qualname), f"{func.qualname}: with threading on the target file is written in place{' (`' + n.stmt + '`)' if n else ''}; a lock-free concurrent load can see a torn file",
                     [n.where() + ': ' + n.stmt] if n else [], g.label)
