"""C02 - read-through: every read loads first; the merge is exhaustive;
the None convention; in-place children; missing-resource discipline."""
from ..engine import *
from ..interp_expr import data_origin
from ..graph import Val, show
from ..report import norm_key
from .. import AnalysisError
from .c04 import loads_done

META = {
    "level": "other",
    "explanation": (
        "Decided on the inlined effect automata: (a) every read of the tree's data in every reader x class x {root,nested} x mode is preceded on all paths by a completed load "
        "of the root; (b) the value merged by _load is the value the loader returned; (c) each per-element path of the dict/list merge ends in an establishing exit "
        "(equal / child merged in place / converted store) and removals/truncation/growth exist; (d) the 'None = resource missing' no-op convention is not applied to element values "
        "(a dominating not-None guard is required at every child _update call); (e) an in-place path for existing children exists; (f) loaders return None only for a missing "
        "resource and re-raise everything else, read the content on every path and keep no memory (they consult only the instance fields that address the resource and store none); the content read by the first "
        "buffered access (_load_from_buffer) is merged on every path; (h) a loader returns an explicit None only on a path that witnessed the resource to be missing (missing-key/file handler, ENOENT arm, `is None` arm) - an empty file is not an absent one. Equality of merged values with the loaded values for all data is value-level and NOT decided."
    ),
    "rule": "contexts = class x reader x {root,nested} x mode (non-trivial: reads _data) + the _load/_update/_load_from_resource implementations",
    "trusted_base": ["engine call resolution and CFG"],
    "assumptions": [],
}


def units(A, tier):
    return [("class", c.name) for c in A.concrete()] + [("merge", None), ("loaders", None)]


def run_unit(A, unit, rep, tier):
    kind, name = unit
    if kind == "merge":
        return check_merge(A, rep)
    if kind == "loaders":
        check_first_buffered_load(A, rep)
        return check_loaders(A, rep)
    cls = A.model.find_class(name)
    eps = A.entry_points(cls)
    for m in A.readers(cls):
        f = eps[m]
        for rho in ("root", "nested"):
            for mu in A.modes(cls):
                b, g = A.graph(cls, m, rho, mu)
                reads = [n for n in live(g) if n.kind == "data_read" and (n["owner"].args[2] == "T" or str(n["owner"].args[2]).startswith("P:")) and not n.in_extent("_load") and not n.in_extent("_load_from_buffer")]
                rep.context(g.label, bool(reads))
                bad = []
                for tree in sorted({n["owner"].args[2] for n in reads}):
                    if tree == "T":
                        L = loads_done(g, mu)
                    else:
                        # another collection passed as an argument (recognised by isinstance(other, type(self)))
                        L = [x.id for x in live(g) if x.kind == "leave" and x["fname"] in ("_load_from_resource", "_load_from_buffer") and x["recv"] is not None and x["recv"].kind == "inst" and x["recv"].args[2] == tree]
                    reach = g.reachable_from([g.entry], avoid=L)
                    bad += [n for n in reads if n["owner"].args[2] == tree and n.id in reach]
                L = loads_done(g, mu)
                if not bad:
                    rep.ok("C02.a", f"C02.a {g.label}: all {len(reads)} reads of _data are preceded by a completed load of the root")
                else:
                    n = bad[0]
                    rep.fail("C02.a", norm_key("C02.a", f.qualname, f"rho={rho}") if n["owner"].args[2] == "T" else norm_key("C02.a", f.qualname, "operand"),
                             f"read operation {f.qualname} reads the cached data (`{n.stmt}` in {n.func}) on a path that has not loaded the backend's current content",
                             g.witness(g.path(g.entry, [n.id], avoid=L if n["owner"].args[2] == "T" else [])), g.label)
    # C02.b load feeds merge
    owner, lv = A.model.lookup(cls, "_load")
    for mu in A.modes(cls):
        b, g = A.graph(cls, "_load", "root", mu)
        rep.context(g.label, True)
        ups = [n for n in live(g) if is_enter(n, "_update") and recv_is_root_T(n) and sum(1 for q, _ in n.stack if q.endswith("._update")) == 1]
        loader_rets = [n["ret"] for n in live(g) if n.kind == "leave" and n["fname"] in ("_load_from_resource", "_load_from_buffer")]
        shared_mem = cls.is_subclass_of("SharedMemoryFileBufferedCollection") and mu != "none"
        if not ups and not shared_mem:
            rep.fail("C02.b", norm_key("C02.b", lv.func.qualname, "no-merge", f"mu={'none' if mu == 'none' else 'buffered'}"),
                     f"{lv.func.qualname}: the loaded data is never merged into the tree (_update is not called)", [], g.label)
            continue
        ok = True
        for u in ups:
            d = u["args"].get("data")
            if d is None or not any(d == r or (d.kind == "phi" and r in d.args) for r in loader_rets):
                ok = False
                rep.fail("C02.b", norm_key("C02.b", u.stack[-2][0] if len(u.stack) > 1 else lv.func.qualname, u.stmt),
                         f"the value merged by `{u.stmt}` is not the value returned by the loader on that path (got {show(d)[:80]})", [u.where() + ": " + u.stmt], g.label)
        if ok and not shared_mem:
            loaders = [n.id for n in live(g) if n.kind == "leave" and n["fname"] in ("_load_from_resource", "_load_from_buffer") and recv_is_root_T(n) and own_child(n)]
            for l in loaders:
                w = g.must_pass(l, [g.exit], [u.id for u in ups] + none_arms(g, loader_rets))
                if w is not None:
                    ok = False
                    rep.fail("C02.b", norm_key("C02.b", lv.func.qualname, "conditional-merge"),
                             f"{lv.func.qualname}: after loading there is a path that returns without merging the loaded data into the tree (a stale cache is presented as current)", g.witness(w), g.label)
                    break
        if ok:
            rep.ok("C02.b", f"C02.b {g.label}: {len(ups)} merge call(s) receive exactly the loader's return value, unconditionally")


def none_arms(g, rets):
    """Arms taken exactly when a loader's return value IS None (nothing to merge: the resource does not exist)."""
    out = []
    for n in live(g):
        if n.kind != "arm":
            continue
        c = g.nodes[n["branch"]]["cond"]
        if c.kind == "cmp" and c.args[0] in ("is", "is not") and c.args[2] == Val("const", None) and any(c.args[1] == r for r in rets):
            if (c.args[0] == "is") == n["arm"]:
                out.append(n.id)
    return out


def check_first_buffered_load(A, rep):
    """C02.b for the first access in buffered mode: what _load_from_buffer reads from the resource is merged into the
    tree on every path (only a None result - resource missing - may skip the merge)."""
    seen = {}
    for cls in A.concrete():
        if A.is_buffered(cls):
            owner, v = A.model.lookup(cls, "_load_from_buffer")
            seen.setdefault(v.func, cls)
    for func, cls in seen.items():
        for mu in [m_ for m_ in A.modes(cls) if m_ != "none"]:
            b, g = A.graph(cls, "_load_from_buffer", "root", mu)
            rep.context(g.label, True)
            loads = [n for n in live(g) if n.kind == "leave" and n["fname"] == "_load_from_resource" and recv_is_root_T(n)]
            ups = [n.id for n in live(g) if is_enter(n, "_update") and recv_is_root_T(n)]
            rets = [n["ret"] for n in loads]
            bad = None
            for l in loads:
                w = g.must_pass(l.id, [g.exit], ups + none_arms(g, rets))
                if w is not None:
                    bad = w
                    break
            if loads and bad is None:
                rep.ok("C02.b", f"C02.b {g.label}: the content read on the first buffered access is merged into the tree on every path")
            elif loads:
                rep.fail("C02.b", norm_key("C02.b", func.qualname, "conditional-merge"),
                         f"{func.qualname}: after reading the resource on the first buffered access there is a path that does not merge the content into the tree (e.g. a falsiness test: an emptied collection keeps its stale data, which is then buffered and flushed back)",
                         g.witness(bad), g.label)


def update_impls(A):
    seen = {}
    for cls in A.concrete():
        owner, v = A.model.lookup(cls, "_update")
        seen.setdefault(v.func, cls)
    return seen


def check_merge(A, rep):
    impls = update_impls(A)
    rep.floor("_update implementations", len(impls), 2)
    for func, cls in impls.items():
        b, g = A.graph(cls, "_update", "root", "none")
        rep.context(g.label, True)
        lv = live(g)
        top = [n for n in lv if own(n)]
        heads = [n for n in top if n.kind == "join" and n["what"] == "loop-head"]
        # establishing exits
        def _is_eq(c):
            if c.kind in ("cmp", "cmpres") and c.args[0] == "==":
                return True
            return c.kind == "boolop" and c.args[0] == "and" and any(_is_eq(x) for x in c.args[1:])

        eq_arms = [n.id for n in top if n.kind == "arm" and n["arm"] is True and _is_eq(g.nodes[n["branch"]]["cond"])]
        child_done = [n.id for n in lv if (n.kind == "leave" and n["fname"] == "_update" and own_child(n) and n["recv"].args[1] == "nested")
                      or (n.kind == "recurse" and n["func"].endswith("._update") and own(n))]
        stores = [n.id for n in top if n.kind == "data_mut" and n["op"] == "setitem" and any(x.kind == "call" and str(x.args[0]).endswith("._from_base") for x in n["value"].walk())]
        elem_heads = []
        for h in heads:
            # the per-element loop is the one containing a child _update call
            body = g.reachable_from([y for (y, l) in g.succ[h.id]], avoid=[h.id])
            if any(c in body for c in child_done) and any(s in body for s in stores):
                elem_heads.append(h)
        if not elem_heads:
            raise AnalysisError(f"anchor: per-element merge loop of {func.qualname} not recognised")
        for h in elem_heads:
            succs = [y for (y, l) in g.succ[h.id] if g.nodes[y].kind != "exit"]
            est = set(eq_arms) | set(child_done) | set(stores)
            r = g.reachable_from(succs, avoid=est)
            # only cycles inside the loop body matter
            body = g.reachable_from(succs, avoid=[h.id]) | {h.id}
            back = [p for (p, l) in g.pred[h.id] if p in r and p in body and p != h.id and not _is_loop_entry(g, p, h)]
            if not back:
                rep.ok("C02.c", f"C02.c {func.qualname}: every per-element path ends in equal / child-merged / converted-store")
            else:
                w = g.path(succs[0], back, avoid=est) or []
                rep.fail("C02.c", norm_key("C02.c", func.qualname, "loop"),
                         f"{func.qualname}: a path through the per-element merge reaches the next element without establishing it (no equality, no child merge, no converted store)",
                         g.witness(w), g.label)
        # removal / truncation / growth
        if A.is_list(cls):
            shrink = [n for n in top if n.kind == "data_mut" and (n["op"] in ("rebind", "delitem", "clear", "pop"))]
            grow = [n for n in lv if n.kind == "data_mut" and n["op"] in ("extend", "append", "iadd", "insert") and n["owner"].args[1] == "root" and n.stack[0][0] == func.qualname]
            if shrink and grow:
                rep.ok("C02.c", f"C02.c {func.qualname}: truncation and growth of the tail exist")
            else:
                rep.fail("C02.c", norm_key("C02.c", func.qualname, "tail"), f"{func.qualname}: the list merge no longer truncates or no longer extends the tail", [], g.label)
        else:
            rem = [n for n in top if n.kind == "data_mut" and n["op"] in ("delitem", "pop")]
            uncond = False
            if rem:
                # the removal pass (the loop around the delete) must lie on every path from the merge loop to the exit
                rheads = [h.id for h in heads if any(g.path(h.id, [r.id]) and g.path(r.id, [h.id]) for r in rem)]
                uncond = bool(rheads) and all(g.must_pass(h.id, [g.exit], rheads, labels=("n", "T", "F")) is None for h in elem_heads)
            if rem and uncond:
                rep.ok("C02.c", f"C02.c {func.qualname}: keys absent from the loaded data are removed")
            elif rem:
                rep.fail("C02.c", norm_key("C02.c", func.qualname, "removal-conditional"), f"{func.qualname}: the pass that removes keys which disappeared from the backend can be skipped (it is guarded by a condition)", [], g.label)
            else:
                rep.fail("C02.c", norm_key("C02.c", func.qualname, "removal"), f"{func.qualname}: keys that disappeared from the backend are no longer removed from the cached tree", [], g.label)
        # C02.g a silent (no mutation, no error) return is only allowed for the no-data sentinel `None`
        muts = [n.id for n in lv if n.kind == "data_mut"] + [n.id for n in lv if n.kind == "raise"] + [h.id for h in heads]
        none_arms = [n.id for n in top if n.kind == "arm" and _excludes_none(g.nodes[n["branch"]]["cond"], not n["arm"], Val("param", "data")) ]
        w = g.path(g.entry, [g.exit], avoid=muts + none_arms)
        if w is None:
            rep.ok("C02.g", f"C02.g {func.qualname}: returns without merging only for data is None")
        else:
            rep.fail("C02.g", norm_key("C02.g", func.qualname), f"{func.qualname} can return without merging although the data is not None (e.g. an empty container is treated as 'no data')", g.witness(w), g.label)
        # C02.d None convention at child _update call sites
        calls = [n for n in lv if (n.kind == "enter" and n["fname"] == "_update" and own_child(n) and n["recv"].args[1] == "nested")
                 or (n.kind == "recurse" and n["func"].endswith("._update") and own(n))]
        silent = _has_silent_none_return(g)
        sites = {}
        for c in calls:
            arg = c["args"].get("data") if n_is_enter(c) else (c["args"][0] if c["args"] else None)
            guards = [n.id for n in top if n.kind == "arm" and _excludes_none(g.nodes[n["branch"]]["cond"], n["arm"], arg)]
            w = g.must_pass(g.entry, [c.id], guards)
            site = [n for n in top if n.kind == "maybe_child" and c.id in g.reachable_from([n.id])]
            stmt = c.stmt if not n_is_enter(c) else (site[-1].stmt if site else c.stmt)
            sites.setdefault(stmt, []).append(w)
        for stmt, ws in sites.items():
            w = next((x for x in ws if x is not None), None)
            if w is None or not silent:
                rep.ok("C02.d", f"C02.d {func.qualname}: `{stmt}` cannot pass None to a child's merge (guarded) or the callee has no silent None path")
            else:
                rep.fail("C02.d", norm_key("C02.d", func.qualname, stmt),
                         f"{func.qualname}: `{stmt}` forwards an element value that may be None to the child's _update, whose `None` = 'resource missing' convention makes it a silent no-op: "
                         "a container that became null in the backend keeps its old cached content", g.witness(w), g.label)
        # C02.h the guard that decides "merge the existing child in place" may exclude None, nothing else about the value
        for n in top:
            if n.kind != "branch":
                continue
            r_ = g.reachable_from([y for (y, l) in g.succ[n.id] if l == "T"])
            if not any(c.id in r_ for c in calls) or any(c.id in g.reachable_from([y for (y, l) in g.succ[n.id] if l == "F"], avoid=[h.id for h in heads]) for c in calls):
                continue
            c = n["cond"]
            parts = list(c.args[1:]) if c.kind == "boolop" else [c]
            bare = [p_ for p_ in parts if p_.kind in ("sub", "elem", "param") or (p_.kind == "not" and p_.args[0].kind in ("sub", "elem", "param"))]
            bare = [p_ for p_ in bare if data_origin(p_ if p_.kind != "not" else p_.args[0]) is None
                    and any(x.kind == "param" and x.args[0] == "data" for x in p_.walk())]
            if bare:
                rep.fail("C02.h", norm_key("C02.h", func.qualname, n.stmt),
                         f"{func.qualname}: `{n.stmt}` decides by the truthiness of the new value whether an existing child is merged in place: an empty container replaces the child object, detaching retained handles",
                         [n.where() + ": " + n.stmt], g.label)
            else:
                rep.ok("C02.h")
        # C02.i a value of the wrong kind for the existing child must fall through to the converted store, not escape as an error
        for c in calls:
            tgt = [y for (y, l) in g.succ[c.id] if l == "e"]
            if c.kind == "enter":
                # inlined callee: look at the raise nodes inside its extent
                tgt = [y for x in lv if x.kind == "raise" and x.stack[: len(c.stack)] == c.stack and len(x.stack) >= len(c.stack) for (y, l) in g.succ[x.id] if l == "e"]
            okh = bool(tgt) and all(g.nodes[t].kind == "join" and g.nodes[t]["what"] == "except" and any(g.nodes[y].kind == "handler" and "ValueError" in g.nodes[y]["types"] for (y, l) in g.succ[t]) for t in tgt)
            if okh:
                rep.ok("C02.i")
            else:
                rep.fail("C02.i", norm_key("C02.i", func.qualname, c.stmt if c.kind != "enter" else "child-merge"),
                         f"{func.qualname}: the merge into an existing child is not protected against a value of another kind (ValueError from the child's _update escapes instead of falling through to the converted store): a position that changed from list to dict/str makes every later access raise",
                         [c.where() + ": " + c.stmt], g.label)
        # C02.e in-place path
        inplace = False
        for h in elem_heads:
            for c in child_done:
                if g.path(c, [h.id], avoid=stores):
                    inplace = True
        if inplace:
            rep.ok("C02.e", f"C02.e {func.qualname}: an existing child is merged in place without rebinding its slot")
        else:
            rep.fail("C02.e", norm_key("C02.e", func.qualname), f"{func.qualname}: every merge of an existing nested collection rebinds its slot, detaching retained child handles", [], g.label)


def n_is_enter(n):
    return n.kind == "enter"


def _is_loop_entry(g, p, h):
    return False


def _excludes_none(cond, arm, arg):
    if arg is None:
        return False
    if cond.kind == "boolop":
        # a and b: taken arm implies every conjunct; a or b: not-taken arm refutes every disjunct
        if cond.args[0] == "and" and arm is True:
            return any(_excludes_none(c, True, arg) for c in cond.args[1:])
        if cond.args[0] == "or" and arm is False:
            return any(_excludes_none(c, False, arg) for c in cond.args[1:])
        return False
    if cond.kind == "not":
        return _excludes_none(cond.args[0], not arm, arg)
    if cond.kind != "cmp":
        return False
    op, a, b = cond.args
    if op not in ("is", "is not"):
        return False
    none = Val("const", None)
    other = a if b == none else (b if a == none else None)
    if other is None or other != arg:
        return False
    return (op == "is not") == arm


def _has_silent_none_return(g):
    """The analysed _update returns normally without any mutation when its
    argument is None."""
    top = [n for n in live(g) if own(n)]
    arms = [n for n in top if n.kind == "arm" and g.nodes[n["branch"]]["cond"].kind == "cmp" and g.nodes[n["branch"]]["cond"].args[0] in ("is", "is not")
            and g.nodes[n["branch"]]["cond"].args[2] == Val("const", None) and g.nodes[n["branch"]]["cond"].args[1].kind == "param"
            and (g.nodes[n["branch"]]["cond"].args[0] == "is") == n["arm"]]
    muts = [n.id for n in live(g) if n.kind == "data_mut"] + [n.id for n in live(g) if n.kind == "raise"]
    for a in arms:
        if g.path(a.id, [g.exit], avoid=muts):
            return True
    return False


def check_loaders(A, rep):
    seen = {}
    for cls in A.concrete():
        owner, v = A.model.lookup(cls, "_load_from_resource")
        seen.setdefault(v.func, cls)
    rep.floor("_load_from_resource implementations", len(seen), 4)
    for func, cls in seen.items():
        b, g = A.graph(cls, "_load_from_resource", "root", "none")
        rep.context(g.label, True)
        hs = [n for n in live(g) if n.kind == "handler"]
        ok = True
        for h in hs:
            types = set(h["types"])
            if types <= {"KeyError", "FileNotFoundError"}:
                continue
            arms = [n.id for n in live(g) if n.kind == "arm" and n["arm"] is True and any(x.kind == "ext" and x.args[0].endswith("ENOENT") for x in g.nodes[n["branch"]]["cond"].walk())]
            arms += [n.id for n in live(g) if n.kind == "arm" and n["arm"] is False and g.nodes[n["branch"]]["cond"].kind == "cmp" and g.nodes[n["branch"]]["cond"].args[0] == "!="
                     and any(x.kind == "ext" and x.args[0].endswith("ENOENT") for x in g.nodes[n["branch"]]["cond"].walk())]
            w = g.must_pass(h.id, [g.exit], arms)
            if w is not None:
                ok = False
                rep.fail("C02.f", norm_key("C02.f", func.qualname, h.stmt),
                         f"{func.qualname}: handler `{h.stmt}` can turn an error other than 'resource missing' into a normal return (the cached data would be presented as current)",
                         g.witness(w), g.label)
        def content_read(n):
            if n.kind == "call_unknown" and n["method"] in ("read", "readlines", "readline", "readall") and n["recv"] is not None:
                r = recv_root(n["recv"])
                return r is not None and r.kind == "call" and r.args[0] == "builtins.open"
            if n.kind == "call_ext" and n["callee"] in ("json.load",):
                return True
            return is_res_read(n) and n.kind != "call_ext"

        content = [n.id for n in live(g) if content_read(n)]
        missing = [n.id for n in live(g) if n.kind == "handler"]
        w = g.must_pass(g.entry, [g.exit], content + missing)
        if w is not None or not content:
            ok = False
            rep.fail("C02.f", norm_key("C02.f", func.qualname, "no-content-read"),
                     f"{func.qualname} can return without reading the resource's content (e.g. a 'nothing changed' shortcut based on metadata): outside rewrites are not seen", g.witness(w or []), g.label)
        # (h) "None" (= keep the in-memory data) is returned only on a path that witnessed that the resource is missing:
        # a handler for the backend's "no such key/file" error, the ENOENT arm, or the `is None` arm of a test of what
        # the backend returned.  An existing but empty / falsy resource is content (or corruption), not absence.
        file_exits = [x.id for x in live(g) if x.kind == "call_unknown" and x["method"] == "__exit__" and x["args"] and x["args"][0] != Val("const", None)
                      and x["recv"] is not None and any(y.kind == "call" and y.args[0] == "builtins.open" for y in x["recv"].walk())]
        wit = [n.id for n in hs if set(n["types"]) <= {"KeyError", "FileNotFoundError", "LookupError"}]
        for n in live(g):
            if n.kind != "arm":
                continue
            c = g.nodes[n["branch"]]["cond"]
            neg = False
            while c.kind == "not":
                c, neg = c.args[0], not neg
            if c.kind == "call" and c.args[0] in ("os.path.exists", "os.path.isfile", "os.path.lexists"):
                # `if not os.path.exists(fn): return None`
                if n["arm"] is neg:
                    wit.append(n.id)
            if c.kind == "cmp" and len(c.args) == 3:
                op = c.args[0]
                if any(x.kind == "ext" and isinstance(x.args[0], str) and x.args[0].endswith("ENOENT") for x in c.walk()) and op in ("==", "!=", "is", "is not"):
                    if ((op in ("==", "is")) != neg) == n["arm"]:
                        wit.append(n.id)
                elif op in ("is", "is not", "==", "!=") and Val("const", None) in (c.args[1], c.args[2]):
                    if ((op in ("==", "is")) != neg) == n["arm"]:
                        wit.append(n.id)
        for n in live(g):
            if n.kind == "ret" and n["value"] == Val("const", None) and (own(n) or n.func.endswith("._load_from_resource")):
                w = g.path(g.entry, [n.id], avoid=set(wit) | set(file_exits))
                if w is not None:
                    ok = False
                    rep.fail("C02.h", norm_key("C02.h", func.qualname, "none-without-missing"),
                             f"{func.qualname} can return None (\"no resource: keep the in-memory data\") on a path that has not established that the resource is missing (e.g. an empty file treated like an absent one): "
                             "the stale in-memory data is presented as current and saved over the resource by the next write", g.witness(w), g.label)
        # the loader has no memory: it uses only the instance fields that address the resource and stores none -
        # a "same as last time" shortcut (remembered blob / stamp) hides a rewrite that restores earlier content (ABA)
        def vals_of(n):
            out = []
            for k_, v_ in n.a.items():
                if isinstance(v_, Val):
                    out.append(v_)
                elif isinstance(v_, (tuple, list)):
                    out += [x for x in v_ if isinstance(x, Val)]
                    out += [x[1] for x in v_ if isinstance(x, tuple) and len(x) == 2 and isinstance(x[1], Val)]
                elif isinstance(v_, dict):
                    out += [x for x in v_.values() if isinstance(x, Val)]
            return out

        def self_fields(n):
            return {x.args[1] for v_ in vals_of(n) for x in v_.walk() if x.kind == "field" and x.args[0].kind == "inst" and x.args[0].args[2] == "T"}

        f_res, f_all, stores = set(), {}, []
        for n in live(g):
            if not own(n):
                continue
            names = self_fields(n)
            if is_res_read(n) or (n.kind == "call_ext" and n["callee"] in ("builtins.open", "io.open")) or content_read(n):
                f_res |= names
            for nm in names:
                f_all.setdefault(nm, n)
            if n.kind in ("attr_store", "attr_del") and n["base"] is not None and n["base"].kind == "inst":
                stores.append(n)
        extra = {nm: n for nm, n in f_all.items() if nm not in f_res}
        for nm, n in sorted(extra.items()):
            ok = False
            rep.fail("C02.f", norm_key("C02.f", func.qualname, "memory", nm),
                     f"{func.qualname} consults the instance field `{nm}` (`{n.stmt}`), which does not address the resource: what the loader returns depends on what this object loaded or saved before, so a rewrite of the resource can go unseen (e.g. content restored to an earlier value)",
                     [n.where() + ": " + n.stmt], g.label)
        for n in stores:
            ok = False
            rep.fail("C02.f", norm_key("C02.f", func.qualname, "memory-store", n["name"]),
                     f"{func.qualname} stores the instance attribute `{n['name']}` (`{n.stmt}`): a loader that remembers what it loaded can only use it to skip work later", [n.where() + ": " + n.stmt], g.label)
        if ok:
            rep.ok("C02.f", f"C02.f {func.qualname}: only a missing resource yields None; {len(hs)} handler(s) re-raise everything else; every path reads the content; no state besides the resource address {sorted(f_res)}")
