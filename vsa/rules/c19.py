"""C19 - classification never depends on history: memoisation by type is
observationally pure iff every cacheable type's tag is a function of the type."""
import ast

from ..classify import *
from ..model import ABC_MOD
from ..report import norm_key
from .. import AnalysisError

META = {
    "level": "proof",
    "explanation": (
        "AbstractTypeResolver.get_type memoises type -> tag. (a) Every predicate of every resolver instance in the package is evaluated abstractly (3-valued: true / false / depends on "
        "the instance) over a finite domain of representative types, following helper calls into numpy_utils; for every representative type whose tag can depend on the instance, the "
        "type must be excluded from caching by the exclusion test actually coded in get_type (read from the source: exact-type membership vs. subclass-aware). (b) the memo is keyed by "
        "type(obj), written once per miss with the tag computed on that call, a hit returns the stored tag, and no other function writes the memo. (c) no other module-level mutable "
        "state is written anywhere in the package (who-may-write over module globals, with a positive probe). (d) identifier tables are dict displays (first-match order = source order) "
        "and nothing mutates them. (e) isinstance() also honours obj.__class__, so an object that reports another class than its concrete type (weakref proxy, spec'd mock) is not determined by "
        "type(obj): every memo store must be control-dependent on `obj.__class__ is type(obj)`. The warnings registry used by the numpy conversion warning is history dependent by design and not part of the classified outcome."
    ),
    "rule": "obligation = (resolver, representative type) pair for (a); one per structural clause for (b)-(d)",
    "trusted_base": [
        "built-in subtype / ABC table of the representative types (isinstance against ABCs is determined by type(obj) and obj.__class__; ABC registrations are not changed at run time)",
        "numpy assumed importable (the demanding case)",
    ],
    "assumptions": ["no monkey-patching of resolvers at run time"],
}


def units(A, tier):
    return [("all", None)]


def run_unit(A, unit, rep, tier):
    m = A.model
    rs = find_resolvers(m)
    rep.floor("resolver instances", len(rs), 7)
    mode = exclusion_mode(m)
    if mode is None:
        raise AnalysisError("anchor: AbstractTypeResolver.get_type has no cache-exclusion test on cache_blocklist")
    if mode == "unknown":
        raise AnalysisError("anchor: the cache-exclusion test of AbstractTypeResolver.get_type is neither a membership test nor an issubclass/isinstance call on cache_blocklist; not decided")
    for r in rs:
        bl = blocklist_names(m, r)
        if bl is None:
            rep.undecided_note("C19.a", f"{r.name}: cache_blocklist not statically evaluable")
            bl = []
        for t in REPS:
            tag, pure, poss = tag_of(m, r, t)
            rep.context(f"{r.name} x {t}", not pure)
            if pure:
                rep.ok("C19.a", f"C19.a {r.name}: tag of {t} is type-determined ({tag})")
                continue
            isa = REPS[t]
            if mode == "exact":
                excluded = EXACT[t] in bl or EXACT[t].split(".")[-1] in [b.split(".")[-1] for b in bl if EXACT[t] == t and b.endswith(t.split(".")[-1])]
                excluded = any(b == EXACT[t] for b in bl)
            else:
                excluded = any(b in isa or b.split(".")[-1] in isa for b in bl)
            if excluded:
                rep.ok("C19.a", f"C19.a {r.name}: tag of {t} depends on the instance {poss} and the type is excluded from the cache")
            else:
                rep.fail("C19.a", norm_key("C19.a", r.name, t),
                         f"resolver {r.name}: for values of type '{t}' the tag depends on the instance (possible: {poss}) but get_type caches it by type "
                         f"(the exclusion test is {'an exact-type membership in ' + str(bl) if mode == 'exact' else mode}); the first instance seen decides the classification of all later ones",
                         [f"{r.module.path}:{r.call.lineno}: {r.name} = AbstractTypeResolver(...)"], r.name)
        if r.display:
            rep.ok("C19.d", f"C19.d {r.name}: identifier table is a dict display ({len(r.tags)} tags in source order)")
        else:
            rep.fail("C19.d", norm_key("C19.d", r.name), f"resolver {r.name}: the identifier table is not a literal dict display, so first-match order is not fixed by the source", [], r.name)
    # (b) memo discipline in get_type
    f = m.find_function("AbstractTypeResolver.get_type")
    src = f.node
    key_names = set()
    for n in ast.walk(src):
        if isinstance(n, ast.Assign) and isinstance(n.value, ast.Call) and dotted(n.value.func) == "type" and len(n.value.args) == 1 and isinstance(n.value.args[0], ast.Name):
            for t in n.targets:
                if isinstance(t, ast.Name):
                    key_names.add(t.id)
    stores, loads = [], []
    for n in ast.walk(src):
        if isinstance(n, ast.Subscript) and isinstance(n.value, ast.Attribute) and n.value.attr == "type_map":
            (stores if isinstance(n.ctx, ast.Store) else loads).append(n)
    def keyed_by_type(sub):
        s = sub.slice
        return (isinstance(s, ast.Name) and s.id in key_names) or (isinstance(s, ast.Call) and dotted(s.func) == "type")
    ok_b = bool(stores) and bool(loads) and all(keyed_by_type(s) for s in stores + loads)
    if ok_b:
        rep.ok("C19.b", "C19.b get_type: the memo is read and written under the key type(obj)")
    else:
        rep.fail("C19.b", norm_key("C19.b", f.qualname, "key"), "get_type: the memo is not keyed by the concrete type of the object (type(obj))", [f.loc], f.qualname)
    # the stored value is the tag computed in this call and returned
    ret_names = {n.value.id for n in ast.walk(src) if isinstance(n, ast.Return) and isinstance(n.value, ast.Name)}
    stored_ok = all(isinstance(s._parent, ast.Assign) and isinstance(s._parent.value, ast.Name) and s._parent.value.id in ret_names for s in stores)
    hit_ok = any(isinstance(l._parent, ast.Assign) and any(isinstance(t, ast.Name) and t.id in ret_names for t in l._parent.targets) for l in loads) or any(isinstance(l._parent, ast.Return) for l in loads)
    if stored_ok and hit_ok:
        rep.ok("C19.b", "C19.b get_type: a miss stores the tag it returns, a hit returns the stored tag unchanged")
    else:
        rep.fail("C19.b", norm_key("C19.b", f.qualname, "value"), "get_type: the cached value is not the tag computed / returned by the call", [f.loc], f.qualname)
    # the memo is written only after the classification completed (not on an exception path)
    in_finally = False
    for n in ast.walk(src):
        if isinstance(n, ast.Try):
            for st_ in n.finalbody:
                for x in ast.walk(st_):
                    if isinstance(x, ast.Subscript) and isinstance(x.value, ast.Attribute) and x.value.attr == "type_map" and isinstance(x.ctx, ast.Store):
                        in_finally = True
    if in_finally:
        rep.fail("C19.b", norm_key("C19.b", f.qualname, "store-on-exception-path"), "get_type writes the memo in a finally block: when a predicate raises, the type is cached with an unfinished classification and every later value of that type is misclassified", [f.loc], f.qualname)
    else:
        rep.ok("C19.b", "C19.b get_type writes the memo only after the classification completed")
    # (e) isinstance() honours obj.__class__: for an object that reports another class than its concrete type
    #     (weakref proxy, spec'd mock) type(obj) does not determine the predicates, so it must not be memoized
    from ..classify import _conds_of

    def class_consistency(test, pol):
        """test (with polarity) implies  obj.__class__ is type(obj)."""
        if isinstance(test, ast.BoolOp) and isinstance(test.op, ast.And) and pol:
            return any(class_consistency(v, True) for v in test.values)
        if isinstance(test, ast.BoolOp) and isinstance(test.op, ast.Or) and not pol:
            return any(class_consistency(v, False) for v in test.values)
        if isinstance(test, ast.UnaryOp) and isinstance(test.op, ast.Not):
            return class_consistency(test.operand, not pol)
        if isinstance(test, ast.Compare) and len(test.ops) == 1:
            op = test.ops[0]
            positive = isinstance(op, (ast.Is, ast.Eq))
            negative = isinstance(op, (ast.IsNot, ast.NotEq))
            if (positive and pol) or (negative and not pol):
                sides = [test.left, test.comparators[0]]
                def reported(x):
                    return (isinstance(x, ast.Attribute) and x.attr == "__class__") or (
                        isinstance(x, ast.Call) and dotted(x.func) == "getattr" and len(x.args) >= 2 and isinstance(x.args[1], ast.Constant) and x.args[1].value == "__class__")
                def concrete(x):
                    return (isinstance(x, ast.Name) and x.id in key_names) or (isinstance(x, ast.Call) and dotted(x.func) == "type")
                return (reported(sides[0]) and concrete(sides[1])) or (reported(sides[1]) and concrete(sides[0]))
        return False

    unguarded = []
    for st_ in stores:
        stmt = st_
        while not isinstance(stmt, ast.stmt):
            stmt = stmt._parent
        conds = _conds_of(stmt, src)
        if not any(class_consistency(t, pol) for t, pol in conds):
            unguarded.append(stmt)
    if stores and not unguarded:
        rep.ok("C19.e", "C19.e get_type memoizes a type only for objects whose reported class (obj.__class__, which isinstance() honours) is their concrete type")
    else:
        for stmt in unguarded:
            rep.fail("C19.e", norm_key("C19.e", f.qualname, "reported-class"),
                     "get_type memoizes the category under type(obj) although the predicates use isinstance(), which also honours obj.__class__: for objects that report another "
                     "class than their concrete type (weakref.proxy, spec'd mocks) the first one seen decides the category of all later ones",
                     [f"{f.module.path}:{stmt.lineno}: {ast.unparse(stmt)[:100]}"], f.qualname)
    writers = []
    for g in m.functions:
        if g.module.name == ABC_MOD or g is f or g.name == "__init__" and g.cls is f.cls:
            continue
        for n in ast.walk(g.node):
            if isinstance(n, ast.Attribute) and n.attr in ("type_map", "abstract_type_identifiers", "cache_blocklist"):
                par = n._parent
                if isinstance(n.ctx, ast.Store) or (isinstance(par, ast.Subscript) and isinstance(par.ctx, (ast.Store, ast.Del))) or (isinstance(par, ast.Attribute) and par.attr in ("update", "clear", "pop", "setdefault", "popitem", "append")):
                    writers.append((g, n))
    if not writers:
        rep.ok("C19.b", "C19.b no function other than get_type / __init__ writes a resolver's memo, table or blocklist")
    for g, n in writers:
        rep.fail("C19.b", norm_key("C19.b", g.qualname, n.attr), f"{g.qualname} writes the resolver state `{n.attr}` outside get_type", [f"{g.module.path}:{n.lineno}"], g.qualname)
    # get_type itself may only write the memo
    other_stores = []
    for n in ast.walk(src):
        tg = n.targets if isinstance(n, ast.Assign) else ([n.target] if isinstance(n, (ast.AugAssign, ast.AnnAssign)) else [])
        for t in tg:
            base = t
            while isinstance(base, ast.Subscript):
                base = base.value
            if isinstance(base, ast.Attribute) and isinstance(base.value, ast.Name) and base.value.id == "self" and base.attr != "type_map":
                other_stores.append((n, base.attr))
    if not other_stores:
        rep.ok("C19.b", "C19.b get_type keeps no state besides the per-type memo")
    for n, attr in other_stores:
        rep.fail("C19.b", norm_key("C19.b", f.qualname, "state", attr), f"get_type keeps additional mutable state `self.{attr}` besides the per-type memo: classification can depend on what was processed before (and on other threads)", [f"{f.module.path}:{n.lineno}"], f.qualname)
    # every other access to the memo (get / in / setdefault ...) must use the same key
    for n in ast.walk(src):
        if isinstance(n, ast.Call) and isinstance(n.func, ast.Attribute) and isinstance(n.func.value, ast.Attribute) and n.func.value.attr == "type_map":
            k = n.args[0] if n.args else None
            if not (isinstance(k, ast.Name) and k.id in key_names):
                rep.fail("C19.b", norm_key("C19.b", f.qualname, "key", n.func.attr), f"get_type consults the memo with a key other than type(obj) (`{ast.unparse(n)[:70]}`): the classification of a type then depends on which other types were seen before", [f"{f.module.path}:{n.lineno}"], f.qualname)
        if isinstance(n, ast.Compare) and any(isinstance(c, ast.Attribute) and c.attr == "type_map" for c in n.comparators):
            if not (isinstance(n.left, ast.Name) and n.left.id in key_names):
                rep.fail("C19.b", norm_key("C19.b", f.qualname, "key", "in"), "get_type tests membership in the memo with a key other than type(obj)", [f"{f.module.path}:{n.lineno}"], f.qualname)
    # (c2') the conversion routine does not reorder / modify the registry (seen through local aliases)
    seen_fb = {}
    for cls in A.concrete():
        owner, v = m.lookup(cls, "_from_base")
        seen_fb.setdefault(v.func, cls)
    from ..graph import Val as _Val
    for func, cls in seen_fb.items():
        b_, g_ = A.graph(cls, "_from_base", "root", "none", recv=_Val("cls", (cls,)))
        for n in g_.nodes:
            if n.id in g_.live and n.kind in ("sub_store", "local_mut", "cs_write"):
                base = n["base"] if n.kind != "cs_write" else n["target"]
                reg = (n.kind == "cs_write" and n["name"] == "registry") or (base is not None and base.kind == "tuple" and base.args and all(x.kind == "classref" for x in base.args))
                if reg:
                    rep.fail("C19.c", norm_key("C19.c", func.qualname, "registry"), f"{func.qualname} modifies the class registry at run time (`{n.stmt}`): which class converts a value then depends on earlier conversions", [n.where() + ": " + n.stmt], func.qualname)
    # (c2) class-level tables (the registry) are only written at class definition time
    hooks = getattr(m, "hook_funcs", set())
    for g in m.functions:
        if g.module.name == ABC_MOD or g in hooks:
            continue
        for n in ast.walk(g.node):
            hit = None
            if isinstance(n, ast.Call) and isinstance(n.func, ast.Attribute) and n.func.attr in ("insert", "remove", "append", "pop", "sort", "reverse", "clear", "extend", "__setitem__"):
                if "registry" in ast.unparse(n.func.value):
                    hit = n
            tg = n.targets if isinstance(n, ast.Assign) else ([n.target] if isinstance(n, ast.AugAssign) else (n.targets if isinstance(n, ast.Delete) else []))
            for t in tg:
                if isinstance(t, (ast.Subscript, ast.Attribute, ast.Tuple)) and "registry" in ast.unparse(t):
                    hit = n
            if hit is not None:
                rep.fail("C19.c", norm_key("C19.c", g.qualname, "registry"), f"{g.qualname} modifies the class registry at run time (`{ast.unparse(hit)[:80]}`): which class converts a value then depends on earlier conversions", [f"{g.module.path}:{hit.lineno}"], g.qualname)
    # (c) module-level mutable state written by functions
    hits = scan_global_writes(m, [mod for nm, mod in m.modules.items() if nm != ABC_MOD])
    from ..model import Module
    probe = Module("synced_collections._vsa_probe2", "<probe>", "_seen = {}\n_n = 0\n_s = set()\n\ndef f(x):\n    global _n\n    _n += 1\n    _seen[type(x)] = x\n    _s.add(type(x))\n", False)
    m._exec_module_body(probe, probe.tree.body)
    if len(scan_global_writes(m, [probe])) != 3:
        raise AnalysisError("module-global who-may-write self-check failed on the built-in positive example")
    if not hits:
        rep.ok("C19.c", "C19.c no function of the package writes module-level state (the only process-wide memo on classification paths is the resolvers' type_map); positive probe flagged")
    for q, stmt, line, path in hits:
        rep.fail("C19.c", norm_key("C19.c", q, stmt), f"{q} writes module-level state (`{stmt}`): a second process-wide memo that classification may depend on", [f"{path}:{line}: {stmt}"], q)


def scan_global_writes(model, mods):
    hits = []
    for mod in mods:
        for fn in ast.walk(mod.tree):
            if not isinstance(fn, (ast.FunctionDef, ast.AsyncFunctionDef)):
                continue
            locals_ = {a.arg for a in fn.args.args + fn.args.kwonlyargs + fn.args.posonlyargs}
            if fn.args.vararg:
                locals_.add(fn.args.vararg.arg)
            if fn.args.kwarg:
                locals_.add(fn.args.kwarg.arg)
            globals_ = set()
            for n in ast.walk(fn):
                if isinstance(n, ast.Global):
                    globals_.update(n.names)
                elif isinstance(n, ast.Name) and isinstance(n.ctx, ast.Store) and n.id not in globals_:
                    locals_.add(n.id)
            for n in ast.walk(fn):
                if isinstance(n, ast.Call) and isinstance(n.func, ast.Attribute) and n.func.attr in ("add", "append", "update", "setdefault", "pop", "clear", "extend", "insert", "remove", "discard", "popitem"):
                    base = n.func.value
                    while isinstance(base, (ast.Subscript, ast.Attribute)):
                        base = base.value
                    if isinstance(base, ast.Name) and base.id not in locals_ and base.id in mod.symbols and mod.symbols[base.id][0] == "var" and isinstance(n.func.value, ast.Name):
                        hits.append((fn.name, " ".join(ast.unparse(n).split())[:100], n.lineno, mod.path))
                tg = []
                if isinstance(n, ast.Assign):
                    tg = n.targets
                elif isinstance(n, (ast.AugAssign, ast.AnnAssign)):
                    tg = [n.target]
                elif isinstance(n, ast.Delete):
                    tg = n.targets
                for t in tg:
                    base = t
                    while isinstance(base, (ast.Subscript, ast.Attribute)):
                        base = base.value
                    if isinstance(base, ast.Name):
                        nm = base.id
                        is_global = nm in globals_ or (nm not in locals_ and nm in mod.symbols and mod.symbols[nm][0] == "var" and t is not base)
                        if is_global:
                            hits.append((fn.name, " ".join(ast.unparse(n).split())[:100], n.lineno, mod.path))
    return hits
