"""C05 - buffered mode: transparent, deferred to the outermost exit."""
from ..engine import *
from ..graph import Val, show
from ..report import norm_key
from ..interp import Builder, Ctx
from ..interp_expr import DICT_ONLY, LIST_ONLY
from .. import AnalysisError
from .c17 import capacity_guard, guarded_only

META = {
    "level": "other",
    "explanation": (
        "Decided on the automata of every entry point x buffered class x {root,nested} x {per-object, backend-wide} context and of the context managers' __exit__: (a) inside a buffered "
        "context the file is written only through the True arm of a capacity guard (forced flush); (b) the is-buffered predicate is the disjunction of the object's and the class's "
        "counter and a non-forced _flush of a still-buffered object writes nothing; (c) the context exit decrements first and calls the flush callback iff the counter is then zero, the "
        "callback being that object's _flush / that class's _flush_buffer; (d) ownership: under the shared-memory strategy a root's _data is never REBOUND on a public path except to the "
        "buffer entry (reads re-point _data at the entry, so a rebound container is silently dropped); (e) code of the buffer/backend layer only uses operations on the data that exist "
        "for both dict and list (each such class is instantiated with both); (f) _save_to_buffer always leaves an entry for the file; (g) the serialized flush merges the entry's "
        "contents before writing; (c') the outermost context also flushes when it is left by an exception. Equality of returned values with an unbuffered run is NOT decided."
    ),
    "rule": "contexts = buffered class x entry point x {root,nested} x {obj,backend} (+ context exits with counter 1/2); non-trivial = touches the buffer or the file",
    "trusted_base": ["engine CFG and call resolution", "abstract counters of the buffering contexts"],
    "assumptions": [],
}


def units(A, tier):
    return [("class", c.name) for c in A.concrete() if A.is_buffered(c)] + [("contexts", None), ("layer", None)]


def run_unit(A, unit, rep, tier):
    kind, name = unit
    if kind == "contexts":
        return check_contexts(A, rep)
    if kind == "layer":
        return check_layer(A, rep)
    cls = A.model.find_class(name)
    eps = A.entry_points(cls)
    shared = cls.is_subclass_of("SharedMemoryFileBufferedCollection")
    for m in sorted(eps):
        f = eps[m]
        for rho in ("root", "nested"):
            for mu in ("obj", "backend"):
                b, g = A.graph(cls, m, rho, mu)
                lv = live(g)
                writes = [n.id for n in lv if is_res_write(n)]
                rep.context(g.label, bool(writes) or any(n.kind in ("cs_read", "cs_write") for n in lv))
                w = guarded_only(g, writes, capacity_guard)
                if w is None:
                    rep.ok("C05.a", f"C05.a {g.label}: the file is written only by a capacity-forced flush ({len(writes)} write sinks)")
                else:
                    n = g.nodes[w[-1]]
                    rep.fail("C05.a", norm_key("C05.a", f.qualname, n.func, n.stmt),
                             f"inside a buffered context {f.qualname} can write the file (`{n.stmt}` in {n.func}) although no capacity limit forces a flush", g.witness(w), g.label)
                if shared and rho == "root":
                    for n in lv:
                        if n.kind == "data_mut" and n["op"] == "rebind" and n["owner"].args[1] == "root" and n["owner"].args[2] == "T":
                            v = n["value"]
                            from_entry = cattr_origin(v) is not None and cattr_origin(v).args[1] == "_buffer"
                            if from_entry:
                                rep.ok("C05.d")
                                continue
                            # also fine if the new object is stored into the entry afterwards on every path
                            stores = [x.id for x in lv if x.kind == "cs_write" and x["name"] == "_buffer" and x["op"] == "setitem" and x["value"] is not None and any(y.kind == "data" for y in x["value"].walk())]
                            if stores and g.must_pass(n.id, [g.exit], stores) is None:
                                rep.ok("C05.d")
                                continue
                            rep.fail("C05.d", norm_key("C05.d", n.func, n.stmt),
                                     f"shared-memory buffering: `{n.stmt}` in {n.func} rebinds the root's _data to a new container while the buffer entry keeps the old one; the next buffered "
                                     "access re-points _data at the entry and the operation's effect is lost", g.witness(g.path(g.entry, [n.id])), g.label)
    # (b) a non-forced flush of a still-buffered object writes nothing
    for mu in ("obj", "backend"):
        b, g = A.graph(cls, "_flush", "root", mu, args=[Val("const", False)])
        rep.context(g.label, True)
        writes = [n for n in live(g) if is_res_write(n)]
        if not writes:
            rep.ok("C05.b", f"C05.b {g.label}: _flush(force=False) of a still-buffered object does not write")
        else:
            n = writes[0]
            rep.fail("C05.b", norm_key("C05.b", n.func, n.stmt), f"_flush(force=False) writes the file although the object is still buffered ({mu} context active)", g.witness(g.path(g.entry, [n.id])), g.label)
    # (b) predicate = disjunction of both counters
    owner, pv = A.model.lookup(cls, "_is_buffered")
    if pv is None:
        raise AnalysisError(f"anchor: {cls.name} has no _is_buffered predicate")
    pfunc = getattr(pv, "fget", None) or getattr(pv, "func", None)  # a property or a plain method
    for (o, c, want) in ((1, 0, True), (0, 1, True), (0, 0, False), (2, 3, True)):
        bb = Builder(A.model, Ctx(cls, "root", "none", counts={("T", "buffered"): o, ("C", "_buffer_context"): c}))
        inst = Val("inst", (cls,), "root", "T")
        gg = bb.run(pfunc, inst)
        rv = gg.nodes[gg.exit]["ret"]
        bb.counts = {("T", "buffered"): o, ("C", "_buffer_context"): c, ("T", "_suspend_sync"): 0}
        t = bb.truth(rv)
        if t is want:
            rep.ok("C05.b", f"C05.b {cls.name}._is_buffered with object counter {o}, class counter {c} is {want}")
        else:
            rep.fail("C05.b", norm_key("C05.b", pfunc.qualname, f"obj={min(o,1)} cls={min(c,1)}"),
                     f"{pfunc.qualname} evaluates to {t} (expected {want}) when the object's context counter is {o} and the class's is {c}: one of the two buffering contexts is ignored", [], cls.name)
    # (f) _save_to_buffer leaves an entry
    for mu in ("obj",):
        b, g = A.graph(cls, "_save_to_buffer", "root", mu)
        rep.context(g.label, True)
        # the entry must end up holding (an encoding of / a reference to) THIS object's current data: operations
        # that do not load first (root reset/clear) work on data that is not the container another object stored
        ent = [n.id for n in live(g) if n.kind == "cs_write" and n["name"] == "_buffer" and n["op"] == "setitem" and not n.in_extent("_flush_buffer")
               and n["value"] is not None and any(x.kind == "data" and x.args[0].args[2] == "T" for x in n["value"].walk())]
        w = g.must_pass(g.entry, [g.exit], ent)
        if w is None and ent:
            rep.ok("C05.f", f"C05.f {g.label}: on every path the file's buffer entry receives this object's current data")
        else:
            rep.fail("C05.f", norm_key("C05.f", A.model.lookup(cls, "_save_to_buffer")[1].func.qualname),
                     "_save_to_buffer can return without the buffer entry holding this object's current data (it relies on the entry already being this object's container, which does not hold for "
                     "operations that do not load first when another object on the same file created the entry): the write is lost", g.witness(w or []), g.label)


def check_contexts(A, rep):
    done = set()
    for cls in A.concrete():
        if not A.is_buffered(cls):
            continue
        for which, cb in (("obj", "_flush"), ("backend", "_flush_buffer")):
            owner, v = A.model.lookup(cls, cb)
            for count, exc in ((1, False), (2, False), (1, True)):
                b, g = A.ctx_exit_graph(cls, which, count, 0, exc=exc)
                rep.context(g.label, True)
                # a flush forced by restoring a smaller capacity is capacity-forced, not an exit flush
                calls = [n for n in live(g) if is_enter(n, cb) and len(n.stack) <= 4 and (n["recv"] is not None) and not n.in_extent("set_buffer_capacity")]
                right = [n for n in calls if (which == "obj" and recv_is_root_T(n)) or (which == "backend" and n["recv"].kind == "cls" and n["recv"].args[0] == (g.ctx.cls,))]
                decs = [n.id for n in live(g) if n.kind == "count" and n["delta"] == -1]
                if count == 1:
                    w = g.must_pass(g.entry, [g.exit], [n.id for n in right])
                    wd = g.must_pass(g.entry, [n.id for n in right], decs) if right else None
                    if w is None and right and wd is None:
                        rep.ok("C05.c", f"C05.c {g.label}: leaving the outermost context decrements, then calls {cb} of this {'object' if which == 'obj' else 'class'}")
                    else:
                        rep.fail("C05.c", norm_key("C05.c", which, "outermost" + ("-exc" if exc else "")),
                                 f"leaving the outermost {which} buffering context{' while an exception propagates' if exc else ''} does not (always) flush through {cb}, or flushes before the counter is decremented"
                                 + (": the buffered writes of the block are neither written nor discarded - entries and size survive the context" if exc else ""), g.witness(w or wd or []), g.label)
                else:
                    if not calls:
                        rep.ok("C05.c", f"C05.c {g.label}: leaving an inner context does not flush")
                    else:
                        rep.fail("C05.c", norm_key("C05.c", which, "inner"), f"leaving an INNER {which} buffering context (counter {count} -> {count - 1}) already flushes", g.witness(g.path(g.entry, [calls[0].id])), g.label)


def check_per_class_state(A, rep):
    """(i) every concrete buffered class owns its own buffer, size counter, registry, context and lock."""
    names = ("_buffer", "_CURRENT_BUFFER_SIZE", "_buffered_collections", "_buffer_context", "_BUFFER_LOCK")
    for cls in A.concrete():
        if not cls.is_subclass_of("FileBufferedCollection"):
            continue
        for nm in names:
            owner, v = A.model.lookup(cls, nm)
            if owner is cls:
                rep.ok("C05.i")
            else:
                rep.fail("C05.i", norm_key("C05.i", nm, "shared"),
                         f"class-wide buffer state `{nm}` of {cls.name} is inherited from {owner.name if owner else None} instead of being created per class: buffering one class flushes / counts collections of another",
                         [], cls.name)


def check_layer(A, rep):
    """(e) data-type agnostic buffer / backend layer, (g) flush merges the entry."""
    check_per_class_state(A, rep)
    n_checked = 0
    for cls in A.concrete():
        if not A.is_buffered(cls):
            continue
        islist = A.is_list(cls)
        graphs = []
        for mu in ("none", "obj", "backend"):
            for force in (False, True):
                graphs.append(A.graph(cls, "_flush", "root", mu, args=[Val("const", force)])[1])
        for m in ("_load", "_save", "_save_to_buffer", "_load_from_buffer"):
            for mu in ("obj", "backend"):
                graphs.append(A.graph(cls, m, "root", mu)[1])
        for g in graphs:
            rep.context(g.label, True)
            for n in live(g):
                defcls = A.model.find_function(n.func).cls if "." in n.func and not n.func.startswith("<") else None
                if defcls is None or defcls.is_subclass_of("SyncedDict") or defcls.is_subclass_of("SyncedList") or not defcls.is_subclass_of("SyncedCollection"):
                    continue
                bad = None
                if n.kind in ("data_read", "data_mut") and n["owner"].args[2] == "T":
                    op = n["op"]
                    if (islist and op in DICT_ONLY) or (not islist and op in LIST_ONLY):
                        bad = f"applies the {'dict' if islist else 'list'}-only operation `{op}` to the data"
                    if n.kind == "data_mut" and op == "rebind":
                        v = n["value"]
                        k = v.args[0] if v.kind == "comp" else v.kind
                        if (islist and k == "dict") or (not islist and k == "list"):
                            bad = f"rebinds _data to a {k}"
                elif n.kind == "bad_method":
                    bad = f"calls `{n['method']}` on a {n['container']}"
                n_checked += 1
                if bad:
                    rep.fail("C05.e", norm_key("C05.e", n.func, n.stmt),
                             f"{n.func} (buffer/backend layer, shared by dict and list classes) {bad} when the collection is a {'list' if islist else 'dict'}: `{n.stmt}`",
                             g.witness(g.path(g.entry, [n.id])), g.label)
        if not any(k.startswith("C05.e") for k in rep.findings):
            pass
    rep.floor("buffer-layer data operations examined", n_checked, 20)
    if not any(k.startswith("C05.e") for k in rep.findings):
        rep.ok("C05.e", f"C05.e {n_checked} data operations in buffer/backend-layer code are valid for both dict and list")
    # (g)
    seen = {}
    for cls in A.concrete():
        if cls.is_subclass_of("SerializedFileBufferedCollection"):
            owner, v = A.model.lookup(cls, "_flush")
            seen.setdefault(v.func, cls)
    for func, cls in seen.items():
      for force in (False, True):
        b, g = A.graph(cls, "_flush", "root", "none", args=[Val("const", force)])
        saves = [n.id for n in live(g) if is_enter(n, "_save_to_resource")]
        merges = [n.id for n in live(g) if is_leave(n, "_update") and recv_is_root_T(n) and own_child(n)]
        merges_e = [n for n in live(g) if is_enter(n, "_update") and recv_is_root_T(n) and cattr_origin_any(n["args"].get("data"))]
        w = g.must_pass(g.entry, saves, merges)
        if w is None and saves and merges and merges_e:
            rep.ok("C05.g", f"C05.g {func.qualname} force={force}: the entry's contents are merged into the object before the file is written")
        else:
            rep.fail("C05.g", norm_key("C05.g", func.qualname, f"force={force}"), f"{func.qualname} (force={force}) writes the object's own data without first merging the shared buffer entry's contents (writes made through another object on the same file are lost)", g.witness(w or []), g.label)
    # (g') shared-memory strategy: the flush writes the buffered container, so the object must adopt it first
    seen_m = {}
    for cls in A.concrete():
        if cls.is_subclass_of("SharedMemoryFileBufferedCollection"):
            owner, v = A.model.lookup(cls, "_flush")
            seen_m.setdefault(v.func, cls)
    for func, cls in seen_m.items():
        for force in (False, True):
            b, g = A.graph(cls, "_flush", "root", "none", args=[Val("const", force)])
            saves = [n.id for n in live(g) if is_enter(n, "_save_to_resource")]
            adopt = [n.id for n in live(g) if n.kind == "data_mut" and n["op"] == "rebind" and n["owner"].args[1] == "root" and cattr_origin(n["value"]) is not None and cattr_origin(n["value"]).args[1] == "_buffer"]
            adopt += [n.id for n in live(g) if is_leave(n, "_update") and recv_is_root_T(n) and own_child(n)]
            w = g.must_pass(g.entry, saves, adopt)
            if w is None and saves:
                rep.ok("C05.g", f"C05.g {func.qualname} force={force}: the buffered contents are adopted before the file is written")
            else:
                rep.fail("C05.g", norm_key("C05.g", func.qualname, f"force={force}"),
                         f"{func.qualname} (force={force}) writes the flushing object's own data without first adopting the container held in the shared buffer entry (another object on the same file may have replaced it): that object's writes are lost",
                         g.witness(w or []), g.label)
    # (h) serialized strategy: an object that saves without having loaded (destructive operation, file not yet
    #     buffered) must record the hash of what is ON DISK as the entry's reference, on every path
    for func_cls in seen.values():
        cls = func_cls
        if A.model.lookup(cls, "_initialize_data_in_buffer")[1] is None:
            raise AnalysisError(f"anchor: {cls.name} has no entry-creating method (_initialize_data_in_buffer, or a single method assigning `_buffer[...] = {{...}}`)")
        b, g = A.graph(cls, "_save_to_buffer", "root", "obj")
        inits = [n for n in live(g) if is_leave(n, "_initialize_data_in_buffer") and own_child(n)]
        hashw = [n.id for n in live(g) if n.kind == "cs_write" and n["name"] == "_buffer" and n["op"] == "setitem" and n["index"] == Val("const", "hash") and own(n)
                 and any(x.kind == "call" and str(x.args[0]).endswith("json.loads") or (x.kind == "call" and "open" in str(x.args[0])) for x in n["value"].walk())]
        f = A.model.lookup(cls, "_save_to_buffer")[1].func
        okh = bool(inits) and all(g.must_pass(i.id, [g.exit], hashw) is None for i in inits)
        if okh:
            rep.ok("C05.h", f"C05.h {f.qualname}: a save without prior load records the on-disk hash as the entry's reference on every path")
        else:
            rep.fail("C05.h", norm_key("C05.h", f.qualname), f"{f.qualname}: when the file is not yet buffered the entry's reference hash is not (always) replaced by the hash of the on-disk data: the flush then sees 'unchanged' and never writes the new content", [], g.label)


def cattr_origin_any(v):
    if v is None:
        return False
    return any(x.kind == "cattr" and x.args[1] == "_buffer" for x in v.walk())
