"""C03 - refinement of built-in dict/list: three structural necessary
conditions (comparison operators, raise-before-mutate, faithful forwarding)."""
import ast

from ..engine import *
from ..graph import Val, show
from ..report import norm_key
from .. import AnalysisError

META = {
    "level": "other",
    "explanation": (
        "Almost entirely value-level; three structural clauses are decided, the behaviour is NOT: (a) every return of every rich-comparison dunder reachable on a collection class is a "
        "comparison between a self-derived plain value and an other-derived value whose operator is the dunder's own (mirrored when self is on the right) - both isinstance branches are "
        "separate obligations; unrecognised forms are reported as undecided, not as alarms; (b) in the body of every mutator no mutation of the data is followed by a lookup that raises "
        "for a missing key / index / element, so an operation that raises has not changed content; (c) a method that applies the same-named built-in operation to the underlying "
        "container passes its parameters in order and unchanged (only wrapped by the conversion), e.g. no index+1, no swapped arguments, and applies it to the container itself, not to a "
        "slice with re-based positions; (e) no JSON writer of the package sorts or skips keys (insertion order is part of dict behaviour for a re-opened collection)."
    ),
    "rule": "obligation = one return of a comparison dunder / one mutator body / one forwarding call site, per defining function",
    "trusted_base": ["engine value provenance"],
    "assumptions": [],
}

OPS = {"__eq__": ast.Eq, "__ne__": ast.NotEq, "__lt__": ast.Lt, "__le__": ast.LtE, "__gt__": ast.Gt, "__ge__": ast.GtE}
MIRROR = {ast.Lt: ast.Gt, ast.Gt: ast.Lt, ast.LtE: ast.GtE, ast.GtE: ast.LtE, ast.Eq: ast.Eq, ast.NotEq: ast.NotEq}
DUNDER_OP = {"__delitem__": "delitem", "__setitem__": "setitem", "__getitem__": "getitem", "__iadd__": "iadd", "__contains__": "contains", "__len__": "len", "__iter__": "iter", "__reversed__": "reversed"}
LOOKUP_OPS = {"delitem", "remove", "pop", "popitem", "getitem", "index"}


def units(A, tier):
    return [("all", None)]


def side(e, selfname, othername):
    names = {n.id for n in ast.walk(e) if isinstance(n, ast.Name)}
    if selfname in names and othername not in names:
        return "self"
    if othername in names and selfname not in names:
        return "other"
    return None


def run_unit(A, unit, rep, tier):
    seen_cmp = {}
    seen_fun = {}
    for cls in A.concrete():
        eps = A.entry_points(cls)
        for name, f in eps.items():
            if name in OPS and f.name == name:
                seen_cmp.setdefault(f, cls)
            seen_fun.setdefault((f, name), cls)
    rep.floor("comparison dunders", len(seen_cmp), 5)
    for f, cls in seen_cmp.items():
        a = f.node.args.args
        if len(a) < 2:
            continue
        sn, on = a[0].arg, a[1].arg
        want = OPS[f.name]
        rets = [n for n in ast.walk(f.node) if isinstance(n, ast.Return) and n.value is not None]
        for i, r in enumerate(rets):
            rep.context(f"{f.qualname} return #{i + 1}", True)
            e = r.value
            if not (isinstance(e, ast.Compare) and len(e.ops) == 1):
                rep.undecided_note("C03.a", f"{f.qualname}: `return {ast.unparse(e)}` is not a single comparison")
                continue
            ls, rs_ = side(e.left, sn, on), side(e.comparators[0], sn, on)
            if {ls, rs_} != {"self", "other"}:
                rep.undecided_note("C03.a", f"{f.qualname}: `return {ast.unparse(e)}` does not compare self with other")
                continue
            expect = want if ls == "self" else MIRROR[want]
            branch = "synced operand" if ast.unparse(e.comparators[0] if ls == "self" else e.left).endswith("()") else "plain operand"
            if isinstance(e.ops[0], expect):
                rep.ok("C03.a", f"C03.a {f.qualname} ({branch}): `{ast.unparse(e)}` uses the operator of {f.name}")
            else:
                rep.fail("C03.a", norm_key("C03.a", f.qualname, branch),
                         f"{f.qualname} ({branch} branch) returns `{ast.unparse(e)}`: the operator is not the one {f.name} stands for, so the comparison disagrees with list/dict comparison",
                         [f"{f.module.path}:{r.lineno}: return {ast.unparse(e)}"], f.qualname)
    # (b) and (c) on the mutator / reader bodies
    n_fwd = 0
    for (f, name), cls in seen_fun.items():
        if A.classify(cls, name) != "mutator" and name not in DUNDER_OP and name not in ("get", "index", "count", "keys"):
            continue
        b, g = A.graph(cls, name, "root", "none")
        top = [n for n in live(g) if own(n)]
        if A.classify(cls, name) == "mutator":
            rep.context(g.label, True)
            muts = [n for n in top if n.kind == "data_mut"]
            bad = None
            for u in muts:
                succ = [y for (y, l) in g.succ[u.id] if l != "e"]
                r = g.reachable_from(succ)
                for x in top:
                    if x.id in r and x.id != u.id and x.kind in ("data_mut", "data_read") and x["op"] in LOOKUP_OPS and any(l == "e" for (_, l) in g.succ[x.id]):
                        bad = (u, x)
                        break
                if bad:
                    break
            if bad is None:
                rep.ok("C03.b", f"C03.b {f.qualname}: no lookup that can raise follows a mutation in the body")
            else:
                u, x = bad
                rep.fail("C03.b", norm_key("C03.b", f.qualname, u.stmt, x.stmt),
                         f"{f.qualname}: `{x.stmt}` can raise (missing key / index / element) after `{u.stmt}` already changed the content: the failed operation is not a no-op",
                         g.witness(g.path(u.id, [x.id])), g.label)
        # (d) null is a legal stored value: the presence of a key must not be decided by comparing a lookup result with None
        for n in top:
            if n.kind == "branch":
                c = n["cond"]
                conds = list(c.args[1:]) if c.kind == "boolop" else [c]
                for p_ in conds:
                    if p_.kind == "not":
                        p_ = p_.args[0]
                    if p_.kind == "cmp" and p_.args[0] in ("is", "is not", "==", "!=") and Val("const", None) in (p_.args[1], p_.args[2]):
                        other = p_.args[1] if p_.args[2] == Val("const", None) else p_.args[2]
                        if other.kind == "call" and other.args[0] in ("get", "pop", "setdefault") and other.args[1] is not None and other.args[1].kind == "data" and len(other.args[2]) == 1:
                            rep.fail("C03.d", norm_key("C03.d", f.qualname, n.stmt),
                                     f"{f.qualname}: `{n.stmt}` decides whether a key is present by comparing the result of `{other.args[0]}` with None; a stored null is then treated as a missing key (built-in dict semantics differ)",
                                     [n.where() + ": " + n.stmt], g.label)
        # (c) forwarding
        params = [p.arg for p in f.node.args.args][1:]
        opname = DUNDER_OP.get(name, name)
        for n in top:
            if n.kind in ("data_mut", "data_read") and n["op"] == opname:
                n_fwd += 1
                args = []
                if n["index"] is not None:
                    args.append(n["index"])
                args.extend(n["args"] or ())
                if n["value"] is not None and n.kind == "data_mut" and n["op"] in ("setitem", "iadd"):
                    args.append(n["value"])
                okf = True
                why = ""
                pi = 0
                for a in args:
                    core = a
                    # unwrap conversion
                    while core.kind == "call" and str(core.args[0]).endswith("._from_base") and (core.args[2] or core.args[3]):
                        core = core.args[2][0] if core.args[2] else dict(core.args[3]).get("data", core)
                    if any(x.kind == "bin" and any(y.kind == "param" for y in x.walk()) for x in a.walk()):
                        okf = False
                        why = f"argument `{show(a)[:60]}` applies arithmetic to a parameter"
                        break
                    if core.kind == "param":
                        if core.args[0] in params:
                            idx = params.index(core.args[0])
                            if idx < pi:
                                okf = False
                                why = f"parameters are forwarded out of order (`{core.args[0]}`)"
                                break
                            pi = idx
                if okf:
                    rep.ok("C03.c", f"C03.c {f.qualname}: `{n.stmt}` forwards the parameters in order and unchanged")
                else:
                    rep.fail("C03.c", norm_key("C03.c", f.qualname, n.stmt), f"{f.qualname}: `{n.stmt}` does not forward the method's parameters faithfully to the built-in operation: {why}",
                             [n.where() + ": " + n.stmt], g.label)
        # the same-named built-in operation is applied to the container itself, not to a part of it with
        # re-based positions (`start + self._data[start:stop].index(v)` differs from list.index for negative start)
        for n in top:
            part = None
            if n.kind == "call_unknown" and n["method"] == opname and n["recv"] is not None and n["recv"].kind == "sub":
                part = n["recv"]
            elif n.kind == "maybe_child" and n["what"] == "call:" + opname and n["value"] is not None and n["value"].kind == "sub":
                part = n["value"]
            if part is not None and part.args[0].kind == "data" and isinstance(part.args[1], Val) and part.args[1].kind == "slice":
                if True:
                    rep.fail("C03.c", norm_key("C03.c", f.qualname, n.stmt, "part"),
                             f"{f.qualname}: `{n.stmt}` applies `{opname}` to a part of the underlying container and translates the result, instead of forwarding the operation (and its arguments) to the container itself: positions differ from the built-in for arguments the translation does not cover (negative bounds)",
                             [n.where() + ": " + n.stmt], g.label)
    rep.floor("forwarding call sites", n_fwd, 10)
    # (e) the serialised form keeps the dict's insertion order and every key: a writer that sorts (or skips) keys
    #     makes a re-opened collection iterate / popitem in another order than the dict the same operations build
    m = A.model
    n_dump = 0
    for f in m.functions:
        if f.module.name.endswith("_collections_abc"):
            continue
        for n in ast.walk(f.node):
            if not isinstance(n, ast.Call):
                continue
            r = m.resolve_dotted(f.module, n.func) if isinstance(n.func, (ast.Name, ast.Attribute)) else None
            if r is None or r[0] != "ext" or r[1] not in ("json.dumps", "json.dump"):
                continue
            n_dump += 1
            bad = [k.arg for k in n.keywords if k.arg in ("sort_keys", "skipkeys") and not (isinstance(k.value, ast.Constant) and not k.value.value)]
            if bad:
                rep.fail("C03.e", norm_key("C03.e", f.qualname, ",".join(bad)),
                         f"{f.qualname}: `{ast.unparse(n)[:80]}` passes {bad}: the stored form no longer has the collection's key order / keys, so another handle on the resource orders (or lacks) entries differently from a built-in dict",
                         [f"{f.module.path}:{n.lineno}"], f.qualname)
            else:
                rep.ok("C03.e", f"C03.e {f.qualname}: the JSON writer keeps insertion order and all keys")
    rep.floor("json writer call sites", n_dump, 2)
