"""C07 - a buffered flush never silently overwrites a foreign change."""
from ..engine import *
from ..graph import Val, show
from ..report import norm_key
from .. import AnalysisError
from .c17 import modified_guard

META = {
    "level": "other",
    "explanation": (
        "Decided on the automata of every _flush implementation, of the class-wide _flush_buffer and of the backend-wide context manager: (a) every write of the file is reachable only "
        "through the 'metadata unchanged' arm of a comparison of the entry's stored metadata with fresh file metadata, whose mismatch arm raises MetadataError, and that check is itself "
        "under the entry's modified-condition (read-only entries never raise, never write); (b) once the entry is found, its removal and the size adjustment happen on the normal and on "
        "every exceptional exit; (c) the class-wide flush catches (OSError, MetadataError) per collection inside the loop, records the file, continues, and raises BufferedError built from "
        "that mapping after the loop; (d) the backend-wide context pushes one capacity on entry and pops/restores it on EVERY exit path, including the one where the flush raises. "
        "An __enter__ of that context that raises (lowering the capacity forces a flush) undoes its counter increment and its push, since __exit__ is not called then; (h) the metadata are taken by a stat call that follows symbolic links. That (st_size, st_mtime_ns) differs for every outside write (file-system timing) is NOT decided."
    ),
    "rule": "obligations per _flush implementation x force flag x buffered class kind, per exit path kind",
    "trusted_base": ["engine CFG with exception edges"],
    "assumptions": [],
}


def units(A, tier):
    return [("flush", None), ("flush_buffer", None), ("context", None)]


def flush_impls(A):
    seen = {}
    for cls in A.concrete():
        if A.is_buffered(cls):
            owner, v = A.model.lookup(cls, "_flush")
            seen.setdefault(v.func, []).append(cls)
    if len(seen) < 2:
        raise AnalysisError(f"instance floor: {len(seen)} _flush implementations (expected >= 2)")
    return seen


def metadata_guard(n):
    if n.kind != "branch":
        return False
    for x in n["cond"].walk():
        if x.kind == "sub" and x.args[1].kind == "const" and x.args[1].args[0] == "metadata" and cattr_origin(x) is not None:
            return True
    return False


def run_unit(A, unit, rep, tier):
    kind, _ = unit
    if kind == "flush":
        for func, classes in flush_impls(A).items():
            for cls in classes[:2]:
                for force in (False, True):
                    check_flush(A, rep, func, cls, force)
    elif kind == "flush_buffer":
        check_flush_buffer(A, rep)
        check_metadata_writers(A, rep)
        check_metadata_source(A, rep)
        check_not_swallowed(A, rep)
    else:
        check_context(A, rep)


def check_flush(A, rep, func, cls, force):
    b, g = A.graph(cls, "_flush", "root", "none", args=[Val("const", force)])
    label = f"{func.qualname} on {cls.name} force={force}"
    rep.context(label, True)
    lv = live(g)
    saves = [n.id for n in lv if is_enter(n, "_save_to_resource")]
    mg = [n for n in lv if metadata_guard(n)]
    if not saves or not mg:
        rep.fail("C07.a", norm_key("C07.a", func.qualname, "anchor"), f"{func.qualname}: no file write or no metadata comparison found", [], label)
        return
    # arm that means "unchanged"
    ok_arms, bad_arms = [], []
    for br in mg:
        op = br["cond"].args[0] if br["cond"].kind == "cmp" else None
        for a in lv:
            if a.kind == "arm" and a["branch"] == br.id:
                same = (a["arm"] is True and op == "==") or (a["arm"] is False and op == "!=")
                (ok_arms if same else bad_arms).append(a.id)
    w = g.must_pass(g.entry, saves, ok_arms)
    if w is None:
        rep.ok("C07.a", f"C07.a {label}: the file write is reachable only through the 'metadata unchanged' arm")
    else:
        rep.fail("C07.a", norm_key("C07.a", func.qualname, "write-not-dominated"),
                 f"{func.qualname} can write the file without having compared the buffered entry's metadata with the file's current metadata (a foreign change is overwritten silently)", g.witness(w), label)
    raises = [n.id for n in lv if n.kind == "raise" and "MetadataError" in (n["exc"] or ())]
    okm = True
    for a in bad_arms:
        w = g.path(a, [g.exit] + saves, avoid=raises)
        if w is not None:
            okm = False
            rep.fail("C07.a", norm_key("C07.a", func.qualname, "mismatch-not-raised"),
                     f"{func.qualname}: on a metadata mismatch there is a path that does not raise MetadataError", g.witness(w), label)
    if okm:
        rep.ok("C07.a", f"C07.a {label}: a metadata mismatch always raises MetadataError")
    # the check is under the modified condition: read-only entries never raise
    marms = [n.id for n in lv if n.kind == "arm" and n["arm"] is True and modified_guard(g.nodes[n["branch"]]) and not metadata_guard(g.nodes[n["branch"]])]
    w = g.must_pass(g.entry, [m.id for m in mg], marms)
    if w is None:
        rep.ok("C07.a", f"C07.a {label}: the metadata check runs only for modified entries")
    else:
        rep.fail("C07.a", norm_key("C07.a", func.qualname, "check-not-under-modified"),
                 f"{func.qualname}: the metadata check also runs for entries that were only read (a read-only buffered file could raise)", g.witness(w), label)
    # (f') a retained entry's metadata baseline may only be refreshed after this process's own successful write
    mdw = [n for n in lv if n.kind == "cs_write" and n["name"] == "_buffer" and n["op"] == "setitem" and n["index"] == Val("const", "metadata") and own(n)]
    done = [n.id for n in lv if is_leave(n, "_save_to_resource")]
    for n in mdw:
        w = g.must_pass(g.entry, [n.id], done)
        if w is None:
            rep.ok("C07.f", f"C07.f {label}: `{n.stmt}` refreshes the baseline only after the file was written by this flush")
        else:
            rep.fail("C07.f", norm_key("C07.f", func.qualname, n.stmt, "not-after-own-write"),
                     f"{func.qualname}: `{n.stmt}` re-reads the file metadata into the buffered entry although this flush did not write the file (entry unmodified, or a conflict was detected): a change made by someone else becomes the new baseline and is silently overwritten by the next flush",
                     g.witness(w), label)
    # (b) cleanup on all exits
    found = [n for n in lv if modified_guard(n) and not metadata_guard(n) and own(n)]
    dels = [n.id for n in lv if n.kind == "cs_write" and n["name"] == "_buffer" and n["op"] == "delitem"]
    cleared = [n.id for n in lv if n.kind == "cs_write" and n["name"] == "_buffer" and n["op"] == "setitem" and n["index"] is not None and n["index"] == Val("const", "modified")]
    clean = dels + (cleared if force else [])
    for n in found:
        w = g.path(n.id, [g.exit, g.exc_exit], avoid=clean)
        if w is None and clean:
            rep.ok("C07.b", f"C07.b {label}: once the entry is found it is dropped{' or marked clean' if force else ''} on the normal and on every exceptional exit")
        else:
            rep.fail("C07.b", norm_key("C07.b", func.qualname, f"force={force}"),
                     f"{func.qualname} (force={force}) can leave - normally or by an exception - with the file's buffer entry still present and still counted", g.witness(w or []), label)


def check_not_swallowed(A, rep):
    """(g) a BufferedError / MetadataError raised by a flush is never turned into a normal return."""
    for cls in A.concrete():
        if not A.is_buffered(cls) or A.is_list(cls) or cls.is_subclass_of("AttrDict"):
            continue
        for m in ("__getitem__", "__setitem__", "__len__"):
            b, g = A.graph(cls, m, "root", "backend")
            rep.context(g.label, True)
            rs = [n for n in live(g) if n.kind == "raise" and ("BufferedError" in (n["exc"] or ()))]
            bad = None
            for r in rs:
                w = g.path(r.id, [g.exit])
                if w is not None:
                    bad = (r, w)
                    break
            if bad is None:
                rep.ok("C07.g", f"C07.g {g.label}: a BufferedError raised by a (forced) flush always propagates to the caller ({len(rs)} raise sites)")
            else:
                r, w = bad
                last_fn = next((g.nodes[i].func for i in w if g.nodes[i].kind in ("ret",) ), r.func)
                rep.fail("C07.g", norm_key("C07.g", last_fn), f"a BufferedError raised during a flush can be swallowed (e.g. by a return inside finally in {last_fn}): the conflict is never reported although the buffered change is dropped", g.witness(w), g.label)


_FOLLOWING_STATS = ("os.stat", "os.path.getmtime", "os.path.getsize", "os.fstat")
_LINK_STATS = ("os.lstat",)


def check_metadata_source(A, rep):
    """(h) the metadata compared at flush time describe the file the writer opens / replaces: they are taken by a
    stat call that follows symbolic links, addressed through the object's own file name.  Metadata of the link
    itself (os.lstat, follow_symlinks=False) never change when the file behind the link is rewritten, so a foreign
    change of a collection whose file name is a symbolic link would never be detected."""
    seen = {}
    for cls in A.concrete():
        if A.is_buffered(cls):
            owner, v = A.model.lookup(cls, "_get_file_metadata")
            if v is None:
                raise AnalysisError(f"anchor: {cls.name} has no _get_file_metadata")
            seen.setdefault(v.func, cls)
    for func, cls in seen.items():
        b, g = A.graph(cls, "_get_file_metadata", "root", "none")
        rep.context(g.label, True)
        calls = [n for n in live(g) if n.kind == "call_ext" and isinstance(n["callee"], str) and (n["callee"] in _FOLLOWING_STATS or n["callee"] in _LINK_STATS)]
        if not calls:
            raise AnalysisError(f"anchor: {func.qualname} contains no stat call this check knows; not decided")
        for n in calls:
            nofollow = n["callee"] in _LINK_STATS or any(k == "follow_symlinks" and v != Val("const", True) for k, v in (n["kwargs"] or ()))
            if nofollow:
                rep.fail("C07.h", norm_key("C07.h", func.qualname, "link-metadata"),
                         f"{func.qualname}: `{n.stmt}` takes the metadata of a symbolic link itself, not of the file behind it: a foreign rewrite of the file of a collection whose file name is a link is never noticed and the flush overwrites it silently",
                         [n.where() + ": " + n.stmt], g.label)
            else:
                rep.ok("C07.h", f"C07.h {func.qualname}: `{n.stmt}` follows symbolic links (metadata of the file that is written)")


def check_metadata_writers(A, rep):
    """(f) the entry's metadata baseline is written only when the entry is
    created from the file, or re-read right after this process wrote the file."""
    import ast
    from ..model import ABC_MOD
    from ..interp import stmt_text
    n_sites = 0
    for f in A.model.functions:
        if f.module.name == ABC_MOD:
            continue
        for n in ast.walk(f.node):
            hit = None
            if isinstance(n, ast.Assign):
                for t in n.targets:
                    if isinstance(t, ast.Subscript) and isinstance(t.slice, ast.Constant) and t.slice.value == "metadata":
                        hit = n
            if isinstance(n, ast.Dict) and any(isinstance(k, ast.Constant) and k.value == "metadata" for k in n.keys):
                hit = n
            # the same two forms when the entry is a small record class instead of a dict
            rec_create = False
            if isinstance(n, ast.Assign):
                for t in n.targets:
                    if isinstance(t, ast.Attribute) and t.attr == "metadata" and not (isinstance(t.value, ast.Name) and t.value.id == "self"):
                        hit = n
            if isinstance(n, ast.Call) and isinstance(n.func, (ast.Name, ast.Attribute)):
                r_ = A.model.resolve_dotted(f.module, n.func)
                if r_ is not None and r_[0] == "class" and not r_[1].is_subclass_of("SyncedCollection"):
                    fields = [st_.target.id for st_ in r_[1].node.body if isinstance(st_, ast.AnnAssign) and isinstance(st_.target, ast.Name)]
                    init_ = next((st_ for st_ in r_[1].node.body if isinstance(st_, ast.FunctionDef) and st_.name == "__init__"), None)
                    if init_ is not None:
                        fields = fields or [a_.arg for a_ in init_.args.args][1:]
                    if "metadata" in fields and "contents" in fields:
                        hit = n
                        rec_create = True
            if hit is None:
                continue
            n_sites += 1
            st = hit
            while not isinstance(st, ast.stmt):
                st = st._parent
            # allowed: where the entry is created (a dict display with its contents), or after this function wrote the file itself
            creates = rec_create or (isinstance(hit, ast.Dict) and any(isinstance(k, ast.Constant) and k.value == "contents" for k in hit.keys))
            after_own_write = any(isinstance(c, ast.Call) and isinstance(c.func, ast.Attribute) and c.func.attr == "_save_to_resource" and c.lineno <= hit.lineno for c in ast.walk(f.node))
            okw = creates or after_own_write
            if okw:
                rep.ok("C07.f", f"C07.f {f.qualname}: metadata baseline written at entry creation / after this process's own write")
            else:
                rep.fail("C07.f", norm_key("C07.f", f.qualname, stmt_text(st)),
                         f"{f.qualname} rewrites the buffered entry's metadata baseline (`{stmt_text(st)}`): a foreign change made before that point is adopted as the baseline and silently overwritten at the flush",
                         [f"{f.module.path}:{st.lineno}: {stmt_text(st)}"], f.qualname)
    rep.floor("metadata baseline write sites", n_sites, 3)


def check_flush_buffer(A, rep):
    seen = {}
    for cls in A.concrete():
        if A.is_buffered(cls):
            owner, v = A.model.lookup(cls, "_flush_buffer")
            seen.setdefault(v.func, cls)
    for func, cls in seen.items():
        for force in (False, True):
            b, g = A.graph(cls, "_flush_buffer", "root", "none", recv=Val("cls", (A.model.find_class(cls.name),)), args=[Val("const", force)])
            label = f"{func.qualname} on {cls.name} force={force}"
            rep.context(label, True)
            lv = live(g)
            flush_nodes = [n for n in lv if n.in_extent("_flush") and not n.func.endswith("_flush_buffer")]
            handlers = [n for n in lv if n.kind == "handler" and own(n) and {"OSError", "MetadataError"} <= set(n["types"])]
            if not handlers:
                rep.fail("C07.c", norm_key("C07.c", func.qualname, "handler"), "the class-wide flush no longer catches (OSError, MetadataError) around the per-collection flush", [], label)
                continue
            h = handlers[0]
            raises = [n.id for n in lv if n.kind == "raise"]
            heads = [n.id for n in lv if n.kind == "join" and n["what"] == "loop-head" and own(n)]
            stores = [n.id for n in lv if n.kind == "local_mut" and own(n) and n.span[0] >= h.span[0] and n.span[1] <= h.span[1]]
            # from the handler: must store the issue and come back to the loop head, never raise / exit first
            w1 = g.path(h.id, [g.exit, g.exc_exit] + raises, avoid=heads)
            w2 = g.must_pass(h.id, heads, stores)
            if w1 is None and w2 is None and stores:
                rep.ok("C07.c", f"C07.c {label}: a failing collection is recorded and the loop continues with the next one")
            else:
                rep.fail("C07.c", norm_key("C07.c", func.qualname, "isolation"),
                         "the class-wide flush does not isolate a failing file: its handler can leave the loop / re-raise, or does not record the file", g.witness(w1 or w2 or []), label)
            # collections that were retained (still buffered / forced flush) go back into the registry on EVERY way out
            restores = [n.id for n in lv if n.kind == "cs_write" and n["name"] == "_buffered_collections" and n["op"] in ("call:update", "rebind", "setitem") and own(n)]
            outs_ = [g.exit] + [n.id for n in lv if n.kind == "raise" and "BufferedError" in (n["exc"] or ()) and own(n)]
            wr = g.must_pass(g.entry, outs_, restores)
            if wr is None and restores:
                rep.ok("C07.c", f"C07.c {label}: retained collections are put back into the registry on the normal and on the BufferedError exit")
            else:
                rep.fail("C07.c", norm_key("C07.c", func.qualname, "registry-restore"),
                         "the class-wide flush can leave (normally or with BufferedError) without putting the retained collections back into the registry: they are never flushed again and their buffer entries outlive all contexts",
                         g.witness(wr or []), label)
            be = [n for n in lv if n.kind == "raise" and "BufferedError" in (n["exc"] or ()) and own(n)]
            stored_dict = [g.nodes[s]["base"] for s in stores]
            good = [n for n in be if n["value"] is not None and any(a in stored_dict for a in n["value"].args[2])]
            if good:
                rep.ok("C07.c", f"C07.c {label}: BufferedError is raised with the mapping of failed files")
            else:
                rep.fail("C07.c", norm_key("C07.c", func.qualname, "buffered-error"), "BufferedError is no longer raised with the mapping of the files that failed", [], label)
            # exceptions of the per-collection flush reach the handler
            calls = [n for n in lv if is_enter(n, "_flush") and depth(n) == 2]
            if calls and all(any(g.nodes[p].kind == "join" for p in g.reaching_back([h.id])) for c in calls):
                pass


def check_context(A, rep):
    for cls in A.concrete():
        if not cls.is_subclass_of("FileBufferedCollection"):
            continue
        if A.is_list(cls) or cls.is_subclass_of("AttrDict"):
            continue
        # enter: exactly one push on every path
        b, g = A.ctx_exit_graph(cls, "backend", 0, 0, method="__enter__")
        rep.context(g.label, True)
        pushes = [n.id for n in live(g) if n.kind == "local_mut" and n["op"] == "append" and own(n)]
        w = g.must_pass(g.entry, [g.exit], pushes)
        if w is None and pushes:
            rep.ok("C07.d", f"C07.d {g.label}: one capacity is pushed on every path")
        else:
            rep.fail("C07.d", norm_key("C07.d", "context.__enter__", "push"), "entering the backend-wide context does not always push the previous capacity", g.witness(w or []), g.label)
        # __exit__ is not called when __enter__ raises: an __enter__ that raises (the forced flush of a lowered
        # capacity met a conflicting file) must itself undo the counter increment and the push
        # the field in which buffer_backend(capacity) hands the requested capacity to __enter__: found by role
        # (the attribute __call__ assigns from its parameter), not by name
        import ast as _ast
        cmcls = next((n["recv"].args[0] for n in live(g) if n.kind == "enter" and n["fname"] == "__enter__" and n["recv"] is not None and n["recv"].kind == "obj"), None)
        cap_fields = {}
        for c_ in ([cmcls] + [k for k in A.model.classes.values() if cmcls is not None and cmcls.is_subclass_of(k.name) and k is not cmcls]) if cmcls is not None else []:
            for st_ in c_.node.body:
                if isinstance(st_, _ast.FunctionDef) and st_.name == "__call__":
                    params = {a.arg for a in st_.args.args[1:] + st_.args.kwonlyargs}
                    for x in _ast.walk(st_):
                        if isinstance(x, _ast.Assign) and isinstance(x.value, _ast.Name) and x.value.id in params:
                            for t in x.targets:
                                if isinstance(t, _ast.Attribute) and isinstance(t.value, _ast.Name) and t.value.id == "self":
                                    cap_fields[t.attr] = Val("param", x.value.id)
        if not cap_fields:
            raise AnalysisError(f"anchor: the backend-wide context of {cls.name} has no __call__ that stores the requested capacity; not decided")
        for count in (0, 1):
            b, ge = A.ctx_exit_graph(cls, "backend", count, 0, method="__enter__", fields=cap_fields)
            rep.context(ge.label + " (raises)", True)
            if ge.exc_exit not in ge.live:
                rep.ok("C07.d", f"C07.d {ge.label}: entering cannot raise")
                continue
            incs = [n for n in live(ge) if n.kind == "count" and n["delta"] == 1 and n["counter"][0] == "C"]
            decs = [n.id for n in live(ge) if n.kind == "count" and n["delta"] == -1 and n["counter"][0] == "C"]
            pushes_e = [n for n in live(ge) if n.kind == "local_mut" and n["op"] == "append" and own(n)]
            pops_e = [n.id for n in live(ge) if n.kind == "local_mut" and n["op"] == "pop"]
            for what, starts, undo in (("counter", incs, decs), ("capacity", pushes_e, pops_e)):
                w = None
                for n in starts:
                    # only exceptions raised after the increment / push matter
                    w = w or ge.path(n.id, [ge.exc_exit], avoid=undo)
                if w is None:
                    rep.ok("C07.d", f"C07.d {ge.label}: when entering raises, the {what} is put back")
                else:
                    fn = next((n.func for n in live(ge) if "__enter__" in n.func and "FileBuffered" in n.func), "_FileBufferedContext.__enter__")
                    rep.fail("C07.d", norm_key("C07.d", fn, "raises", what),
                             f"{fn}: entering the backend-wide context can raise (lowering the capacity forces a flush, which can meet a file changed by someone else) after the "
                             f"{'context counter was incremented' if what == 'counter' else 'previous capacity was pushed'}; __exit__ is not called when __enter__ raises, so "
                             f"{'the class stays buffered forever and later writes never reach the files' if what == 'counter' else 'the stack keeps a stale element and a later exit restores the wrong capacity'}",
                             ge.witness(w), ge.label)
        for count in (1, 2):
            b, g = A.ctx_exit_graph(cls, "backend", count, 0)
            rep.context(g.label, True)
            decs = [n.id for n in live(g) if n.kind == "count" and n["delta"] == -1]
            for exit_id, what in ((g.exit, "returns"), (g.exc_exit, "raises")):
                if exit_id in g.live:
                    wdec = g.must_pass(g.entry, [exit_id], decs)
                    if wdec is None and decs:
                        rep.ok("C07.d", f"C07.d {g.label}: the context counter is decremented when __exit__ {what}")
                    else:
                        rep.fail("C07.d", norm_key("C07.d", "context.__exit__", "counter", what),
                                 f"leaving the backend-wide context can finish ({what}) without decrementing the context counter: the class stays 'buffered' forever and later writes never reach the files", g.witness(wdec or []), g.label)
            pops = [n.id for n in live(g) if n.kind == "local_mut" and n["op"] == "pop" and own(n)]
            for exit_id, what in ((g.exit, "returns"), (g.exc_exit, "raises (a file conflicted during the flush)")):
                if exit_id not in g.live:
                    continue
                w = g.must_pass(g.entry, [exit_id], pops)
                if w is None and pops:
                    rep.ok("C07.d", f"C07.d {g.label}: the pushed capacity is popped and restored when __exit__ {what.split(' ')[0]}")
                else:
                    fn = next((n.func for n in live(g) if "__exit__" in n.func and "FileBuffered" in n.func), "_FileBufferedContext.__exit__")
                    rep.fail("C07.d", norm_key("C07.d", fn, what.split(" ")[0]),
                             f"{fn}: when leaving the backend-wide context {what} the saved capacity is neither popped nor restored: the temporary capacity stays in force and the "
                             "stack keeps a stale element", g.witness(w or []), g.label)
