"""C17 - reading never writes."""
from ..engine import *
from ..graph import Val, show
from ..report import norm_key
from .. import AnalysisError

META = {
    "level": "proof",
    "explanation": (
        "Absence of any path from a read entry point to a resource-write sink, decided on the resolved, context-sensitively inlined call graph of every reader of every "
        "concrete class (root and nested receivers). Unbuffered: no write sink, no save, no file-creating open mode is reachable at all (C17.a). Buffered: a write sink is "
        "reachable only through the True arm of a capacity guard and of the entry's modified-condition (C17.b). Context exit: every _flush writes only under the "
        "modified-condition (C17.c). Loaders open read-only and never create (C17.d)."
    ),
    "rule": "contexts = class x reader (incl. collections.abc mixin readers) x {root,nested} x buffering mode, plus context-exit callbacks; non-trivial = automaton reaches a load",
    "trusted_base": [
        "engine: MRO-based call resolution, CFG with exception edges, inlining bound",
        "stub table classifying external calls as read / write sinks (open modes, os.*, backend handle methods)",
        "validators and numpy helpers have no resource effects (opaque policy)",
    ],
    "assumptions": ["user-supplied client/collection/group handles perform writes only through non-read methods"],
}


def units(A, tier):
    return [("class", c.name) for c in A.concrete()] + [("flush", None), ("loaders", None)]


def capacity_guard(n):
    if n.kind != "branch":
        return False
    c = n["cond"]
    names = {x.args[1] for x in c.walk() if x.kind == "cattr"}
    return "_CURRENT_BUFFER_SIZE" in names and "_BUFFER_CAPACITY" in names


def modified_guard(n):
    """Branch on the buffer entry's modified-condition (hash inequality /
    modified flag)."""
    if n.kind != "branch":
        return False
    if n["pruned"] is not None:
        return False  # decided by a context constant (e.g. `force or ...`), not by the entry's state
    def is_mod(c):
        if c.kind == "boolop" and c.args[0] == "or":
            # `A or B` writes whenever either holds: every disjunct must be a modified-condition
            return all(is_mod(x) for x in c.args[1:])
        if c.kind == "boolop" and c.args[0] == "and":
            return any(is_mod(x) for x in c.args[1:])
        for x in c.walk():
            if x.kind == "sub" and x.args[1].kind == "const" and x.args[1].args[0] in ("hash", "modified") and cattr_origin(x) is not None:
                return True
        return False

    return is_mod(n["cond"])


def guarded_only(g, targets, guard, arm=True):
    """targets reachable from entry only through the given arm of a guard.
    Returns None or a witness path avoiding all such arms."""
    arms = [n.id for n in live(g) if n.kind == "arm" and n["arm"] == arm and guard(g.nodes[n["branch"]])]
    if not targets:
        return None
    return g.path(g.entry, targets, avoid=arms)


def run_unit(A, unit, rep, tier):
    kind, name = unit
    if kind == "flush":
        return check_flush(A, rep)
    if kind == "loaders":
        return check_loaders(A, rep)
    cls = A.model.find_class(name)
    readers = A.readers(cls)
    rep.floor(f"readers of {cls.name}", len(readers), 15 if A.is_list(cls) else 13)
    for m in readers:
        f = A.entry_points(cls)[m]
        for rho in ("root", "nested"):
            for mu in A.modes(cls):
                b, g = A.graph(cls, m, rho, mu)
                rep.context(g.label, any(is_load_enter(n) for n in live(g)))
                writes = [n for n in live(g) if is_res_write(n)]
                saves = [n for n in live(g) if is_save_enter(n)]
                if mu == "none":
                    bad = writes + saves
                    if not bad:
                        rep.ok("C17.a", f"C17.a {g.label}: no resource write, no save and no creating open() reachable")
                    else:
                        n = bad[0]
                        w = g.path(g.entry, [n.id])
                        rep.fail("C17.a", norm_key("C17.a", f.qualname, n.func, n.stmt),
                                 f"read operation {f.qualname} can reach a write to the backend: `{n.stmt}` in {n.func}", g.witness(w), g.label)
                else:
                    ids = [n.id for n in writes]
                    w1 = guarded_only(g, ids, capacity_guard)
                    w2 = guarded_only(g, ids, modified_guard)
                    # saving to the *buffer* from a reader is also a write of shared state
                    bsaves = [n for n in saves if n["fname"] == "_save_to_buffer"]
                    if w1 is None and w2 is None and not bsaves:
                        rep.ok("C17.b", f"C17.b {g.label}: resource writes ({len(ids)} sinks) only under a capacity-forced flush of a modified entry")
                    else:
                        w = w1 or w2 or g.path(g.entry, [bsaves[0].id])
                        n = g.nodes[w[-1]]
                        rep.fail("C17.b", norm_key("C17.b", f.qualname, n.func, n.stmt),
                                 f"buffered read {f.qualname} can write (`{n.stmt}` in {n.func}) without passing the capacity guard and the entry's modified-condition",
                                 g.witness(w), g.label)


def check_flush(A, rep):
    seen = {}
    for cls in A.concrete():
        if not A.is_buffered(cls):
            continue
        owner, v = A.model.lookup(cls, "_flush")
        seen.setdefault(v.func, []).append(cls)
    rep.floor("_flush implementations", len(seen), 2)
    for func, classes in seen.items():
        for cls in classes[:2]:
            for force in (False, True):
                b, g = A.graph(cls, "_flush", "root", "none", args=[Val("const", force)])
                rep.context(g.label + f"(force={force})", True)
                ids = [n.id for n in live(g) if is_res_write(n)]
                w = guarded_only(g, ids, modified_guard)
                if w is None and ids:
                    rep.ok("C17.c", f"C17.c {func.qualname} on {cls.name} force={force}: the file is written only under the entry's modified-condition")
                elif not ids:
                    rep.fail("C17.c", norm_key("C17.c", func.qualname, "no-write"), f"{func.qualname}: no write sink found at all (anchor)", [], g.label)
                else:
                    n = g.nodes[w[-1]]
                    rep.fail("C17.c", norm_key("C17.c", func.qualname, n.stmt), f"{func.qualname} can write the file (`{n.stmt}`) although the buffered copy was only read", g.witness(w), g.label)


def check_loaders(A, rep):
    seen = {}
    for cls in A.concrete():
        owner, v = A.model.lookup(cls, "_load_from_resource")
        seen.setdefault(v.func, cls)
    rep.floor("_load_from_resource implementations", len(seen), 4)
    for func, cls in seen.items():
        b, g = A.graph(cls, "_load_from_resource", "root", "none")
        rep.context(g.label, True)
        bad = [n for n in live(g) if is_res_write(n)]
        if not bad:
            rep.ok("C17.d", f"C17.d {func.qualname}: opens read-only, creates nothing")
        else:
            n = bad[0]
            rep.fail("C17.d", norm_key("C17.d", func.qualname, n.stmt), f"{func.qualname} can modify or create the resource: `{n.stmt}`", g.witness(g.path(g.entry, [n.id])), g.label)
