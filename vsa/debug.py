"""Debug helper: dump the event graph of one context."""
import sys
from .model import Model
from .interp import Builder, Ctx
from .graph import Val, show


def build(model, clsname, meth, rho="root", mu="none", wc=None, **kw):
    cls = model.find_class(clsname)
    ctx = Ctx(cls, rho, mu, wc, **kw)
    b = Builder(model, ctx)
    owner, v = model.lookup(cls, meth)
    recv = Val("inst", (cls,), rho, "T")
    g = b.run(v.func, recv)
    return b, g


def dump(g, kinds=None):
    live = g.live_nodes()
    for n in g.nodes:
        if n.id not in live:
            continue
        if kinds and n.kind not in kinds:
            continue
        succ = ",".join(f"{y}{'' if l=='n' else l}" for y, l in g.succ[n.id])
        depth = len(n.stack)
        print(f"{n.id:4} {'  '*depth}{n.kind} " + ", ".join(f"{k}={show(v)[:70]}" for k, v in n.a.items() if k not in ('exc',)) + f"  -> {succ}   [{n.loc[0].split('/')[-1]}:{n.loc[1]}]")


if __name__ == "__main__":
    m = Model("/repo")
    b, g = build(m, sys.argv[1], sys.argv[2], *(sys.argv[3:5]))
    dump(g)
    print(len(g.nodes), "nodes; cuts", b.recursion_cuts)
