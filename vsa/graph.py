"""Event graph (effect automaton) and path / dataflow queries (E7)."""
from collections import deque


class Val:
    """Immutable symbolic value: a kind and a tuple of arguments."""

    __slots__ = ("kind", "args", "_h")

    def __init__(self, kind, *args):
        self.kind = kind
        self.args = args
        self._h = None

    def __eq__(self, other):
        return isinstance(other, Val) and self.kind == other.kind and self.args == other.args

    def __hash__(self):
        if self._h is None:
            try:
                self._h = hash((self.kind, self.args))
            except TypeError:
                self._h = hash((self.kind, repr(self.args)))
        return self._h

    def __repr__(self):
        return show(self)

    def walk(self):
        """All sub-values (pre-order), including self."""
        st = [self]
        seen = 0
        while st:
            v = st.pop()
            yield v
            seen += 1
            if seen > 5000:
                return
            for a in v.args:
                if isinstance(a, Val):
                    st.append(a)
                elif isinstance(a, tuple):
                    for x in a:
                        if isinstance(x, Val):
                            st.append(x)
                        elif isinstance(x, tuple):
                            for y in x:
                                if isinstance(y, Val):
                                    st.append(y)


def show(v, depth=0):
    if not isinstance(v, Val):
        if isinstance(v, tuple):
            return "(" + ", ".join(show(x, depth + 1) for x in v) + ")"
        n = getattr(v, "qualname", None) or getattr(v, "name", None)
        if n and not isinstance(v, str):
            return str(n)
        return repr(v)
    if depth > 6:
        return "..."
    k, a = v.kind, v.args
    s = lambda x: show(x, depth + 1)
    if k == "const":
        return repr(a[0])
    if k == "param":
        return f"${a[0]}"
    if k == "inst":
        names = "|".join(c.name for c in a[0])
        return f"<{names}:{a[1]}:{a[2]}>"
    if k == "cls":
        return "type<" + "|".join(c.name for c in a[0]) + ">"
    if k == "obj":
        return f"obj<{a[0].name}#{a[1]}>"
    if k == "lock":
        return f"lock<{a[0]}:{s(a[1])}>"
    if k == "data":
        return f"{s(a[0])}._data"
    if k == "field":
        return f"{s(a[0])}.{a[1]}"
    if k == "cattr":
        return f"{s(a[0])}.{a[1]}"
    if k == "sub":
        return f"{s(a[0])}[{s(a[1])}]"
    if k == "call":
        recv = (s(a[1]) + ".") if a[1] is not None else ""
        args = ", ".join(s(x) for x in a[2])
        kw = ", ".join(f"{n}={s(x)}" for n, x in a[3])
        return f"{recv}{a[0]}({', '.join(p for p in (args, kw) if p)})"
    if k == "bound":
        return f"{s(a[0])}.{a[1].name}"
    if k in ("func", "classref"):
        return a[0].qualname if hasattr(a[0], "qualname") else str(a[0])
    if k == "ext":
        return a[0]
    if k == "phi":
        return "phi(" + ", ".join(s(x) for x in a) + ")"
    if k in ("tuple", "list", "set"):
        return k + "[" + ", ".join(s(x) for x in a) + "]"
    if k == "dict":
        return "dict{" + ", ".join((s(kk) + ": " if kk is not None else "**") + s(vv) for kk, vv in a) + "}"
    if k == "comp":
        return f"comp<{a[0]}>({s(a[1])} for {', '.join(s(x) for x in a[2])})"
    if k == "bin":
        return f"({s(a[1])} {a[0]} {s(a[2])})"
    if k == "cmp":
        return f"({s(a[1])} {a[0]} {s(a[2])})"
    if k == "not":
        return f"not {s(a[0])}"
    if k == "boolop":
        return "(" + f" {a[0]} ".join(s(x) for x in a[1:]) + ")"
    if k == "fmt":
        return "f'" + "".join(x if isinstance(x, str) else "{" + s(x) + "}" for x in a) + "'"
    if k == "elem":
        return f"elem({s(a[0])})"
    if k == "global":
        return f"{a[0]}.{a[1]}"
    if k == "unknown":
        return f"?{a[0]}"
    if k == "super":
        return "super()"
    return f"{k}(" + ", ".join(s(x) for x in a) + ")"


class Node:
    __slots__ = ("id", "kind", "a", "loc", "func", "stack", "stmt", "span")

    def __init__(self, id, kind, attrs, loc, func, stack, stmt):
        self.id = id
        self.kind = kind
        self.a = attrs
        self.loc = loc  # (path, lineno)
        self.func = func  # qualname of the function whose code this is
        self.stack = stack  # tuple of (qualname, recv descr) activations
        self.stmt = stmt  # normalised source text of the statement
        self.span = (loc[1], loc[1])

    def __getitem__(self, k):
        return self.a.get(k)

    def where(self):
        return f"{self.loc[0]}:{self.loc[1]}"

    def descr(self):
        at = ", ".join(f"{k}={show(v)}" for k, v in self.a.items() if k not in ("exc",))
        return f"{self.kind}({at}) @ {self.func} {self.where()}"

    def in_extent(self, funcname):
        return any(q.split(".")[-1] == funcname for q, _ in self.stack)

    def extent_recv(self, funcname):
        for q, r in reversed(self.stack):
            if q.split(".")[-1] == funcname:
                return r
        return None


class Graph:
    def __init__(self):
        self.nodes = []
        self.succ = {}
        self.pred = {}
        self.entry = None
        self.exit = None
        self.exc_exit = None

    def add(self, kind, attrs, loc, func, stack, stmt):
        n = Node(len(self.nodes), kind, attrs, loc, func, stack, stmt)
        self.nodes.append(n)
        self.succ[n.id] = []
        self.pred[n.id] = []
        return n

    def link(self, a, b, label="n"):
        for (x, l) in self.succ[a]:
            if x == b and l == label:
                return
        self.succ[a].append((b, label))
        self.pred[b].append((a, label))

    # ------------------------------------------------------------ queries
    def select(self, kind=None, pred=None):
        out = []
        for n in self.nodes:
            if kind is not None:
                if isinstance(kind, str):
                    if n.kind != kind:
                        continue
                elif n.kind not in kind:
                    continue
            if pred is not None and not pred(n):
                continue
            out.append(n)
        return out

    def reachable_from(self, start_ids, avoid=(), labels=None, edge_ok=None):
        """Forward reachability set (node ids), not passing *through* avoid
        nodes (an avoid node is never entered)."""
        avoid = set(avoid)
        seen = set()
        dq = deque(i for i in start_ids if i not in avoid)
        seen.update(dq)
        while dq:
            x = dq.popleft()
            for (y, l) in self.succ[x]:
                if labels is not None and l not in labels:
                    continue
                if edge_ok is not None and not edge_ok(x, y, l):
                    continue
                if y in avoid or y in seen:
                    continue
                seen.add(y)
                dq.append(y)
        return seen

    def live_nodes(self):
        return self.reachable_from([self.entry])

    def reaching_back(self, target_ids, avoid=()):
        avoid = set(avoid)
        seen = set(i for i in target_ids if i not in avoid)
        dq = deque(seen)
        while dq:
            x = dq.popleft()
            for (y, l) in self.pred[x]:
                if y in avoid or y in seen:
                    continue
                seen.add(y)
                dq.append(y)
        return seen

    def path(self, src, dst_ids, avoid=(), labels=None):
        """Shortest path (list of node ids) from src to any of dst_ids that
        avoids the avoid set, or None."""
        avoid = set(avoid)
        dst_ids = set(dst_ids)
        if src in avoid:
            return None
        prev = {src: None}
        dq = deque([src])
        while dq:
            x = dq.popleft()
            if x in dst_ids and (x != src or prev[x] is not None or len(dst_ids) == 1 and src in dst_ids):
                out = []
                while x is not None:
                    out.append(x)
                    x = prev[x]
                return out[::-1]
            for (y, l) in self.succ[x]:
                if labels is not None and l not in labels:
                    continue
                if y in avoid or y in prev:
                    continue
                prev[y] = x
                dq.append(y)
        return None

    def must_pass(self, src, dst_ids, through_ids, labels=None):
        """Every path src -> dst passes a node of through_ids.
        Returns None if it holds, else a witness path avoiding through_ids."""
        through = set(through_ids)
        if src in through:
            return None
        return self.path(src, set(dst_ids) - through, avoid=through, labels=labels)

    def witness(self, ids):
        out = []
        last = None
        for i in ids or []:
            n = self.nodes[i]
            if n.kind in ("join",):
                continue
            line = f"{n.where()}: [{n.kind}] {n.stmt}"
            if line != last:
                out.append(line)
            last = line
        return out

    # ---------------------------------------------------------- dataflow
    def lock_states(self, apply, init=frozenset(), cap=4000):
        """Forward may-analysis with a powerset domain.

        apply(node, state) -> state   (state is hashable)
        Returns dict node id -> set of states *on entry* to the node.
        """
        states = {self.entry: {init}}
        wl = deque([(self.entry, init)])
        steps = 0
        while wl:
            nid, st = wl.popleft()
            steps += 1
            if steps > 2_000_000:
                break
            out = apply(self.nodes[nid], st)
            for (y, l) in self.succ[nid]:
                o = out[l] if isinstance(out, dict) else out
                if o is None:
                    continue
                s = states.setdefault(y, set())
                if o not in s:
                    if len(s) > cap:
                        continue
                    s.add(o)
                    wl.append((y, o))
        return states

    def dominators(self):
        """Immediate-dominator free version: dom sets via iterative dataflow
        (graphs are small)."""
        live = self.live_nodes()
        order = [n.id for n in self.nodes if n.id in live]
        dom = {i: None for i in order}
        dom[self.entry] = {self.entry}
        changed = True
        while changed:
            changed = False
            for i in order:
                if i == self.entry:
                    continue
                ps = [dom[p] for (p, l) in self.pred[i] if p in live and dom[p] is not None]
                if not ps:
                    continue
                new = set.intersection(*ps) | {i}
                if dom[i] != new:
                    dom[i] = new
                    changed = True
        return {i: (d or set()) for i, d in dom.items()}
