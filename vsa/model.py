"""Loader, symbol resolution, class lattice and definition-time evaluation.

E1 (loader / symbols), E2 (constant evaluator), E3 (class model and partial
evaluation of the ``__init_subclass__`` hooks) of DESIGN.md section 2.

Everything is computed from the parsed source of ``<root>/synced_collections``
plus the interpreter's pure-Python ``_collections_abc.py``.  Nothing of the
analysed package is imported.
"""
import ast
import os
import sys

from . import AnalysisError

PKG = "synced_collections"
ABC_MOD = "_collections_abc"


# --------------------------------------------------------------------------
# basic records
# --------------------------------------------------------------------------
class Module:
    def __init__(self, name, path, src, is_pkg):
        self.name = name
        self.path = path
        self.src = src
        self.lines = src.split("\n")
        self.tree = ast.parse(src, filename=path)
        self.is_pkg = is_pkg
        self.symbols = {}
        self.loaded = False
        self.loading = False
        for n in ast.walk(self.tree):
            for c in ast.iter_child_nodes(n):
                c._parent = n

    def __repr__(self):
        return f"<Module {self.name}>"

    @property
    def relpath(self):
        return self.path


class FuncInfo:
    def __init__(self, module, node, cls=None, parent=None):
        self.module = module
        self.node = node
        self.cls = cls
        self.parent = parent
        self.name = node.name if hasattr(node, "name") else "<lambda>"
        self.decorators = []
        for d in getattr(node, "decorator_list", []):
            self.decorators.append(_dotted(d) or "?")
        if cls is not None:
            self.qualname = f"{cls.name}.{self.name}"
        elif parent is not None:
            self.qualname = f"{parent.qualname}.<locals>.{self.name}"
        else:
            self.qualname = self.name

    @property
    def kind(self):
        ds = self.decorators
        if "classmethod" in ds:
            return "classmethod"
        if "staticmethod" in ds:
            return "staticmethod"
        if "property" in ds:
            return "property"
        if any(d.endswith(".setter") for d in ds):
            return "setter"
        return "function"

    @property
    def is_abstract(self):
        return any(d.split(".")[-1] == "abstractmethod" for d in self.decorators)

    @property
    def loc(self):
        return f"{self.module.path}:{self.node.lineno}"

    def __repr__(self):
        return f"<Func {self.module.name}:{self.qualname}>"


class ExtClass:
    """A base class that lives outside the analysed sources."""

    def __init__(self, name):
        self.name = name
        self.qualname = name
        self.mro = [self]
        self.cdict = {}
        self.module = None
        self.methods = {}

    def __repr__(self):
        return f"<ExtClass {self.name}>"


class ClassInfo:
    def __init__(self, module, node):
        self.module = module
        self.node = node
        self.name = node.name
        self.qualname = f"{module.name}.{node.name}"
        self.bases = []
        self.mro = []
        self.methods = {}  # name -> FuncInfo (last def wins; setters under name+'.setter')
        self.cdict = {}  # class namespace incl. def-time monkey patches
        self.body_assigned = set()  # names assigned in the class body

    def __repr__(self):
        return f"<Class {self.name}>"

    def is_subclass_of(self, other_name):
        return any(k.name == other_name for k in self.mro)


class Opaque:
    """A def-time value the evaluator does not look into (``RLock()`` ...)."""

    def __init__(self, kind, site=None):
        self.kind = kind
        self.site = site

    def __repr__(self):
        return f"Opaque({self.kind})"


class Inst:
    """Def-time instance of a package class: ``_FileBufferedContext(cls)``."""

    def __init__(self, cls, args, kwargs, site=None):
        self.cls = cls
        self.args = args
        self.kwargs = kwargs
        self.site = site

    def __repr__(self):
        return f"Inst({self.cls.name})"


class Prop:
    def __init__(self, fget, fset=None):
        self.fget = fget
        self.fset = fset

    def __repr__(self):
        return f"Prop({self.fget.qualname})"


class BoundCM:
    """classmethod bound to a class (``cls._flush_buffer``)."""

    def __init__(self, cls, func):
        self.cls = cls
        self.func = func

    def __repr__(self):
        return f"BoundCM({self.cls.name}.{self.func.name})"


class Method:
    """Entry of a class namespace that is a ``def``."""

    def __init__(self, func):
        self.func = func

    def __repr__(self):
        return f"Method({self.func.qualname})"


class DefaultDictVal(dict):
    def __init__(self, factory):
        super().__init__()
        self.factory = factory

    def __missing__(self, k):
        v = self[k] = self.factory()
        return v


class Unevaluable(Exception):
    pass


def _dotted(node):
    if isinstance(node, ast.Name):
        return node.id
    if isinstance(node, ast.Attribute):
        b = _dotted(node.value)
        return None if b is None else f"{b}.{node.attr}"
    if isinstance(node, ast.Call):
        return _dotted(node.func)
    return None


dotted = _dotted


# --------------------------------------------------------------------------
# the model
# --------------------------------------------------------------------------
class Model:
    """Parsed program + class lattice + def-time state.

    threading: True  -> class state as left by class creation (the default:
                        backends that support threading have it on);
               False -> class state after ``disable_multithreading()`` has
                        been called on every class that supports threading.
    """

    def __init__(self, root="/repo", threading=True, windows=False):
        self.root = os.path.abspath(root)
        self.threading = threading
        self.windows = windows
        self.modules = {}
        self.classes = {}  # qualname -> ClassInfo
        self.class_order = []
        self.functions = []  # every FuncInfo
        self.ext_classes = {}
        self.notes = []
        self.flags_assumed = {}
        self._load_sources()
        self._canonicalise_roles()
        for name in sorted(self.modules):
            if name != ABC_MOD:
                self._import_module(self.modules[name])

    # ---------------------------------------------------------------- load
    def _load_sources(self):
        pkgdir = os.path.join(self.root, PKG)
        if not os.path.isdir(pkgdir):
            raise AnalysisError(f"package directory {pkgdir} not found")
        for dirpath, dirnames, filenames in os.walk(pkgdir):
            dirnames[:] = sorted(d for d in dirnames if d != "__pycache__")
            for fn in sorted(filenames):
                if not fn.endswith(".py"):
                    continue
                path = os.path.join(dirpath, fn)
                rel = os.path.relpath(path, self.root)[:-3].split(os.sep)
                is_pkg = rel[-1] == "__init__"
                if is_pkg:
                    rel = rel[:-1]
                name = ".".join(rel)
                with open(path, encoding="utf-8") as f:
                    src = f.read()
                try:
                    self.modules[name] = Module(name, path, src, is_pkg)
                except SyntaxError as e:
                    raise AnalysisError(f"cannot parse {path}: {e}")
        import _collections_abc  # stdlib, pure python; only its *source* is used

        path = _collections_abc.__file__
        with open(path, encoding="utf-8") as f:
            self.modules[ABC_MOD] = Module(ABC_MOD, path, f.read(), False)
        self.abc_path = path
        self._import_module(self.modules[ABC_MOD])

    # ------------------------------------------------------------ role names
    # Private class attributes the rules refer to by name, identified by their ROLE in the public API so that a
    # consistent rename in the library does not move them out of view: the attribute a public getter returns.
    ROLE_GETTERS = {"get_current_buffer_size": "_CURRENT_BUFFER_SIZE", "get_buffer_capacity": "_BUFFER_CAPACITY"}

    def _inline_string_constants(self):
        """Module-level string constants (`_MAPPING = "MAPPING"`, `_CONTENTS_KEY = "contents"`) are replaced by
        their literal wherever they are read, so that tags and keys compared through a named constant are analysed
        exactly like the literals they stand for.  Only names bound once, at module level, to a str literal."""
        import re

        consts = {}  # module name -> {name: value}
        for mname, mod in self.modules.items():
            if mname == ABC_MOD:
                continue
            bound = {}
            for n in ast.walk(mod.tree):
                tg = []
                if isinstance(n, ast.Assign):
                    tg = n.targets
                elif isinstance(n, (ast.AugAssign, ast.AnnAssign)):
                    tg = [n.target]
                for t in tg:
                    for x in ast.walk(t):
                        if isinstance(x, ast.Name):
                            bound[x.id] = bound.get(x.id, 0) + 1
            cs = {}
            for st in mod.tree.body:
                if isinstance(st, ast.Assign) and len(st.targets) == 1 and isinstance(st.targets[0], ast.Name) and isinstance(st.value, ast.Constant) \
                        and isinstance(st.value.value, str) and bound.get(st.targets[0].id) == 1 and re.match(r"^_?[A-Z][A-Z0-9_]*$", st.targets[0].id):
                    cs[st.targets[0].id] = st.value.value
            if cs:
                consts[mname] = cs
        if not consts:
            return
        n_inl = 0
        for mname, mod in self.modules.items():
            if mname == ABC_MOD:
                continue
            local = dict(consts.get(mname, {}))
            for st in mod.tree.body:
                if isinstance(st, ast.ImportFrom) and st.module:
                    for dm, cs in consts.items():
                        if dm.split(".")[-1] == st.module.split(".")[-1]:
                            for a in st.names:
                                if a.name in cs:
                                    local[a.asname or a.name] = cs[a.name]
            if not local:
                continue

            class _Inl(ast.NodeTransformer):
                def visit_Name(self_, node):
                    nonlocal n_inl
                    if isinstance(node.ctx, ast.Load) and node.id in local:
                        n_inl += 1
                        return ast.copy_location(ast.Constant(value=local[node.id]), node)
                    return node

            mod.tree = _Inl().visit(mod.tree)
            ast.fix_missing_locations(mod.tree)
            for n in ast.walk(mod.tree):
                for c in ast.iter_child_nodes(n):
                    c._parent = n
        if n_inl:
            self.notes.append(f"{n_inl} reads of module-level string constants analysed as their literal values")

    def _canonicalise_roles(self):
        self._inline_string_constants()
        self.role_alias = {}
        for name, mod in self.modules.items():
            if name == ABC_MOD:
                continue
            for n in ast.walk(mod.tree):
                if isinstance(n, ast.FunctionDef) and n.name in self.ROLE_GETTERS:
                    rets = [r for r in ast.walk(n) if isinstance(r, ast.Return) and r.value is not None]
                    if len(rets) == 1 and isinstance(rets[0].value, ast.Attribute) and isinstance(rets[0].value.value, ast.Name):
                        actual = rets[0].value.attr
                        canon = self.ROLE_GETTERS[n.name]
                        if actual != canon:
                            self.role_alias[actual] = canon
        # the method that creates a buffer entry (`..._buffer[key] = {...}`), whatever it is called
        creators = set()
        for name, mod in self.modules.items():
            if name == ABC_MOD:
                continue
            for n in ast.walk(mod.tree):
                if isinstance(n, ast.FunctionDef):
                    for st in ast.walk(n):
                        if (isinstance(st, ast.Assign) and isinstance(st.value, ast.Dict) and len(st.targets) == 1 and isinstance(st.targets[0], ast.Subscript)
                                and isinstance(st.targets[0].value, ast.Attribute) and st.targets[0].value.attr == "_buffer"):
                            creators.add(n.name)
        if len(creators) == 1:
            (actual,) = creators
            if actual != "_initialize_data_in_buffer":
                self.role_alias[actual] = "_initialize_data_in_buffer"
        if not self.role_alias:
            return
        for name, mod in self.modules.items():
            if name == ABC_MOD:
                continue
            for n in ast.walk(mod.tree):
                if isinstance(n, ast.Attribute) and n.attr in self.role_alias:
                    n.attr = self.role_alias[n.attr]
                elif isinstance(n, ast.Name) and n.id in self.role_alias:
                    n.id = self.role_alias[n.id]
                elif isinstance(n, ast.FunctionDef) and n.name in self.role_alias:
                    n.name = self.role_alias[n.name]
        for a, c in self.role_alias.items():
            self.notes.append(f"role alias: `{a}` is analysed under its canonical name `{c}` (identified by its role, not by its name)")

    # ------------------------------------------------------------- imports
    def _abs_module(self, module, level, modname):
        if level == 0:
            return modname
        parts = module.name.split(".")
        if not module.is_pkg:
            parts = parts[:-1]
        if level > 1:
            parts = parts[: len(parts) - (level - 1)]
        if modname:
            parts = parts + modname.split(".")
        return ".".join(parts)

    def _import_module(self, module):
        if module.loaded or module.loading:
            return
        module.loading = True
        self._exec_module_body(module, module.tree.body)
        module.loading = False
        module.loaded = True

    def _exec_module_body(self, module, body):
        for st in body:
            if isinstance(st, ast.Import):
                for a in st.names:
                    nm = a.asname or a.name.split(".")[0]
                    target = a.name if a.asname else a.name.split(".")[0]
                    module.symbols[nm] = ("ext", target)
            elif isinstance(st, ast.ImportFrom):
                absmod = self._abs_module(module, st.level, st.module)
                if absmod in ("collections.abc",):
                    absmod = ABC_MOD
                for a in st.names:
                    nm = a.asname or a.name
                    if absmod in self.modules:
                        self._import_module(self.modules[absmod])
                        sub = f"{absmod}.{a.name}"
                        if a.name not in self.modules[absmod].symbols and sub in self.modules:
                            self._import_module(self.modules[sub])
                            module.symbols[nm] = ("mod", sub)
                        else:
                            module.symbols[nm] = ("imp", absmod, a.name)
                    elif absmod == PKG or absmod.startswith(PKG + "."):
                        raise AnalysisError(
                            f"{module.path}:{st.lineno}: import of unknown package module {absmod}"
                        )
                    else:
                        module.symbols[nm] = ("ext", f"{absmod}.{a.name}")
            elif isinstance(st, (ast.FunctionDef, ast.AsyncFunctionDef)):
                fi = self._make_func(module, st, None, None)
                module.symbols[st.name] = ("func", fi)
            elif isinstance(st, ast.ClassDef):
                self._create_class(module, st)
            elif isinstance(st, ast.Assign):
                for t in st.targets:
                    if isinstance(t, ast.Name):
                        module.symbols[t.id] = ("var", st.value)
                    elif isinstance(t, ast.Tuple):
                        for i, e in enumerate(t.elts):
                            if isinstance(e, ast.Name):
                                module.symbols[e.id] = ("var", ast.Subscript(value=st.value, slice=ast.Constant(value=i), ctx=ast.Load()))
                self._scan_lambdas(module, st.value)
            elif isinstance(st, ast.AnnAssign):
                if isinstance(st.target, ast.Name) and st.value is not None:
                    module.symbols[st.target.id] = ("var", st.value)
            elif isinstance(st, ast.Try):
                # optional dependency idiom: analyse the "available" outcome
                names_before = set(module.symbols)
                self._exec_module_body(module, st.body)
                self._exec_module_body(module, st.orelse)
                for h in st.handlers:
                    for s in h.body:
                        if isinstance(s, ast.Assign):
                            for t in s.targets:
                                if isinstance(t, ast.Name) and t.id not in module.symbols:
                                    module.symbols[t.id] = ("var", s.value)
                for n in set(module.symbols) - names_before:
                    self.flags_assumed[f"{module.name}.{n}"] = "try-body outcome (optional dependency assumed importable)"
                self._exec_module_body(module, st.finalbody)
            elif isinstance(st, ast.If):
                # module level conditionals: take both, body last wins
                self._exec_module_body(module, st.orelse)
                self._exec_module_body(module, st.body)
            else:
                pass

    def _scan_lambdas(self, module, expr):
        pass

    def _make_func(self, module, node, cls, parent):
        fi = FuncInfo(module, node, cls, parent)
        self.functions.append(fi)
        node._funcinfo = fi
        # nested defs
        for sub in ast.walk(node):
            if sub is node:
                continue
            if isinstance(sub, (ast.FunctionDef, ast.AsyncFunctionDef)) and not hasattr(sub, "_funcinfo"):
                # direct parent function?
                p = sub._parent
                while not isinstance(p, (ast.FunctionDef, ast.AsyncFunctionDef, ast.ClassDef, ast.Module)):
                    p = p._parent
                if p is node:
                    self._make_func(module, sub, None, fi)
        return fi

    # --------------------------------------------------------------- names
    def resolve(self, module, name, _depth=0):
        """Resolve a module-level name to a definition.

        Returns one of
          ("func", FuncInfo) ("class", ClassInfo) ("var", Module, expr)
          ("mod", Module) ("ext", dotted) or None
        """
        if _depth > 20:
            return None
        sym = module.symbols.get(name)
        if sym is None:
            if name == "__name__":
                return ("const", module.name)
            return None
        k = sym[0]
        if k == "imp":
            m = self.modules[sym[1]]
            r = self.resolve(m, sym[2], _depth + 1)
            if r is None:
                sub = f"{sym[1]}.{sym[2]}"
                if sub in self.modules:
                    return ("mod", self.modules[sub])
            return r
        if k == "mod":
            return ("mod", self.modules[sym[1]])
        if k == "var":
            return ("var", module, sym[1])
        return sym

    def resolve_dotted(self, module, expr):
        """Resolve Name / Attribute chains that denote module-level things."""
        if isinstance(expr, ast.Name):
            return self.resolve(module, expr.id)
        if isinstance(expr, ast.Attribute):
            base = self.resolve_dotted(module, expr.value)
            if base is None:
                return None
            if base[0] == "ext":
                return ("ext", f"{base[1]}.{expr.attr}")
            if base[0] == "mod":
                return self.resolve(base[1], expr.attr)
            return None
        return None

    # --------------------------------------------------------- const eval
    def consteval(self, module, expr, _depth=0):
        if _depth > 30:
            raise Unevaluable("depth")
        E = lambda e: self.consteval(module, e, _depth + 1)
        if isinstance(expr, ast.Constant):
            return expr.value
        if isinstance(expr, ast.Name):
            if expr.id == "__name__":
                return module.name
            r = self.resolve(module, expr.id)
            if r is None:
                raise Unevaluable(expr.id)
            if r[0] == "func":
                return r[1]
            if r[0] == "class":
                return r[1]
            if r[0] == "var":
                return self.consteval(r[1], r[2], _depth + 1)
            if r[0] == "const":
                return r[1]
            if r[0] == "ext":
                return Opaque("ext:" + r[1])
            raise Unevaluable(expr.id)
        if isinstance(expr, (ast.Tuple, ast.List)):
            vals = tuple(E(e) for e in expr.elts)
            return vals if isinstance(expr, ast.Tuple) else list(vals)
        if isinstance(expr, ast.Set):
            return frozenset(E(e) for e in expr.elts)
        if isinstance(expr, ast.Dict):
            return {E(k): E(v) for k, v in zip(expr.keys, expr.values)}
        if isinstance(expr, ast.BinOp):
            a, b = E(expr.left), E(expr.right)
            try:
                if isinstance(expr.op, ast.Add):
                    return a + b
                if isinstance(expr.op, ast.Sub):
                    return a - b
                if isinstance(expr.op, ast.Mult):
                    return a * b
                if isinstance(expr.op, ast.Pow):
                    return a**b
                if isinstance(expr.op, ast.BitOr):
                    return a | b
                if isinstance(expr.op, ast.BitAnd):
                    return a & b
                if isinstance(expr.op, ast.FloorDiv):
                    return a // b
            except Exception as e:
                raise Unevaluable(str(e))
            raise Unevaluable("binop")
        if isinstance(expr, ast.UnaryOp):
            v = E(expr.operand)
            if isinstance(expr.op, ast.Not):
                return not v
            if isinstance(expr.op, ast.USub):
                return -v
            raise Unevaluable("unop")
        if isinstance(expr, ast.BoolOp):
            vals = [E(v) for v in expr.values]
            if isinstance(expr.op, ast.Or):
                for v in vals:
                    if v:
                        return v
                return vals[-1]
            for v in vals:
                if not v:
                    return v
            return vals[-1]
        if isinstance(expr, ast.Subscript):
            v = E(expr.value)
            i = E(expr.slice)
            try:
                return v[i]
            except Exception as e:
                raise Unevaluable(str(e))
        if isinstance(expr, ast.Call):
            d = _dotted(expr.func)
            if d == "frozenset" or d == "tuple" or d == "set" or d == "list":
                if not expr.args:
                    return {"frozenset": frozenset(), "tuple": (), "set": frozenset(), "list": []}[d]
                v = E(expr.args[0])
                return {"frozenset": frozenset, "tuple": tuple, "set": frozenset, "list": list}[d](v)
            if d == "type" and len(expr.args) == 1:
                v = E(expr.args[0])
                return type(v)
            if d is not None and d.endswith("platform.startswith") and expr.args:
                plat = "win32" if self.windows else "linux"
                return plat.startswith(E(expr.args[0]))
            if d == "defaultdict":
                return DefaultDictVal(list)
            if d in ("RLock", "threading.RLock", "Lock", "threading.Lock"):
                return Opaque("RLock", expr)
            r = self.resolve_dotted(module, expr.func)
            if r is not None and r[0] == "class":
                return Inst(r[1], [E(a) for a in expr.args], {k.arg: E(k.value) for k in expr.keywords}, expr)
            raise Unevaluable("call " + str(d))
        if isinstance(expr, ast.Attribute):
            r = self.resolve_dotted(module, expr)
            if r is not None:
                if r[0] in ("func", "class"):
                    return r[1]
                if r[0] == "ext":
                    return Opaque("ext:" + r[1])
                if r[0] == "var":
                    return self.consteval(r[1], r[2], _depth + 1)
            raise Unevaluable("attr")
        if isinstance(expr, ast.JoinedStr):
            raise Unevaluable("fstring")
        if isinstance(expr, ast.Lambda):
            return Opaque("lambda", expr)
        raise Unevaluable(type(expr).__name__)

    # -------------------------------------------------------------- classes
    def _ext_class(self, name):
        if name not in self.ext_classes:
            self.ext_classes[name] = ExtClass(name)
        return self.ext_classes[name]

    def _create_class(self, module, node):
        ci = ClassInfo(module, node)
        for b in node.bases:
            r = self.resolve_dotted(module, b)
            if r is not None and r[0] == "class":
                ci.bases.append(r[1])
            else:
                d = _dotted(b) or "?"
                if r is not None and r[0] == "ext":
                    d = r[1]
                ci.bases.append(self._ext_class(d))
        ci.mro = self._c3(ci)
        module.symbols[node.name] = ("class", ci)
        self.classes[ci.qualname] = ci
        self.class_order.append(ci)
        # namespace
        for st in node.body:
            if isinstance(st, (ast.FunctionDef, ast.AsyncFunctionDef)):
                fi = self._make_func(module, st, ci, None)
                if fi.kind == "setter":
                    prev = ci.cdict.get(st.name)
                    if isinstance(prev, Prop):
                        ci.cdict[st.name] = Prop(prev.fget, fi)
                    ci.methods[st.name + ".setter"] = fi
                    continue
                ci.methods[st.name] = fi
                if fi.kind == "property":
                    ci.cdict[st.name] = Prop(fi)
                else:
                    ci.cdict[st.name] = Method(fi)
            elif isinstance(st, (ast.Assign, ast.AnnAssign)):
                targets = st.targets if isinstance(st, ast.Assign) else [st.target]
                if st.value is None:
                    continue
                for t in targets:
                    if isinstance(t, ast.Name):
                        ci.body_assigned.add(t.id)
                        try:
                            ci.cdict[t.id] = self._class_body_eval(module, ci, st.value)
                        except Unevaluable as e:
                            ci.cdict[t.id] = Opaque("unevaluable:" + ast.unparse(st.value)[:60], st.value)
        if module.name != ABC_MOD:
            self._run_init_subclass(ci)

    def _class_body_eval(self, module, ci, expr):
        # names of the class body shadow module names
        if isinstance(expr, ast.Name) and expr.id in ci.cdict:
            return ci.cdict[expr.id]
        if isinstance(expr, ast.BinOp):
            try:
                return self.consteval(module, expr)
            except Unevaluable:
                a = self._class_body_eval(module, ci, expr.left)
                b = self._class_body_eval(module, ci, expr.right)
                if isinstance(expr.op, ast.BitOr):
                    return a | b
                if isinstance(expr.op, ast.Add):
                    return a + b
                raise
        return self.consteval(module, expr)

    def _c3(self, ci):
        seqs = [list(b.mro) for b in ci.bases] + [list(ci.bases)]
        res = [ci]
        seqs = [s for s in seqs if s]
        while seqs:
            for s in seqs:
                cand = s[0]
                if not any(cand in t[1:] for t in seqs):
                    break
            else:
                raise AnalysisError(f"inconsistent MRO for {ci.qualname}")
            res.append(cand)
            seqs = [[x for x in s if x is not cand] for s in seqs]
            seqs = [s for s in seqs if s]
        return res

    def lookup(self, cls, name, after=None):
        """First (owner, value) for attribute ``name`` in MRO(cls).

        after: start searching after this class in the MRO (``super()``).
        """
        mro = cls.mro
        start = 0
        if after is not None:
            try:
                start = mro.index(after) + 1
            except ValueError:
                start = 0
        for k in mro[start:]:
            if name in k.cdict:
                v = k.cdict[name]
                if isinstance(v, FuncInfo):
                    # a plain function stored in a class namespace by a class hook (`cls.m = m`) is a method
                    v = k.cdict[name] = Method(v)
                return k, v
        return None, None

    def abstract_names(self, cls):
        names = set()
        for k in cls.mro:
            for n, v in k.cdict.items():
                f = v.func if isinstance(v, Method) else (v.fget if isinstance(v, Prop) else None)
                if f is not None and f.is_abstract:
                    names.add(n)
        out = set()
        for n in names:
            owner, v = self.lookup(cls, n)
            f = v.func if isinstance(v, Method) else (v.fget if isinstance(v, Prop) else None)
            if f is not None and f.is_abstract:
                out.add(n)
        return out

    def is_abstract(self, cls):
        return bool(self.abstract_names(cls))

    def concrete_classes(self):
        out = []
        for c in self.class_order:
            if c.module.name == ABC_MOD:
                continue
            if c.is_subclass_of("SyncedCollection") and not self.is_abstract(c):
                out.append(c)
        return out

    @property
    def registry(self):
        sc = self.find_class("SyncedCollection")
        reg = sc.cdict.get("registry")
        if not isinstance(reg, dict):
            raise AnalysisError("SyncedCollection.registry is not a statically known dict")
        return reg

    def find_class(self, name):
        hits = [c for c in self.class_order if c.name == name and c.module.name != ABC_MOD]
        if not hits:
            hits = [c for c in self.class_order if c.name == name]
        if not hits:
            raise AnalysisError(f"anchor class {name} not found")
        return hits[-1]

    def find_function(self, qualname):
        hits = [f for f in self.functions if f.qualname == qualname and f.module.name != ABC_MOD]
        if not hits:
            raise AnalysisError(f"anchor function {qualname} not found")
        return hits[-1]

    def bucket_of(self, cls):
        owner, b = self.lookup(cls, "_backend")
        if not isinstance(b, str):
            return None
        return b

    def bucket_classes(self, cls):
        b = self.bucket_of(cls)
        if b is None:
            return []
        return list(self.registry.get(b, []))

    # --------------------------------------------------- def-time evaluator
    def _run_init_subclass(self, ci):
        owner, v = None, None
        for k in ci.mro[1:]:
            if "__init_subclass__" in k.cdict:
                owner, v = k, k.cdict["__init_subclass__"]
                break
        if owner is None or not isinstance(v, Method):
            return
        DefEval(self).call(v.func, ci, [], {})
        if not self.threading:
            o, sup = self.lookup(ci, "_supports_threading")
            if sup is True:
                o, dm = self.lookup(ci, "disable_multithreading")
                if isinstance(dm, Method):
                    DefEval(self).call(dm.func, ci, [], {})


class _Return(Exception):
    def __init__(self, value):
        self.value = value


class DefRaise(Exception):
    pass


class _Super:
    def __init__(self, defining, cls):
        self.defining = defining
        self.cls = cls


class _OwnDict:
    def __init__(self, cls):
        self.cls = cls


class DefEval:
    """Concrete interpreter for the statement subset used by the class hooks
    (``__init_subclass__``, ``_register_validators``, ``enable/disable_
    multithreading``).  A construct outside the subset is an AnalysisError -
    the class model is never guessed."""

    def __init__(self, model):
        self.model = model

    def err(self, func, node, what):
        raise AnalysisError(
            f"{func.module.path}:{getattr(node, 'lineno', '?')}: def-time evaluator: unsupported {what}: "
            f"{ast.unparse(node)[:80] if isinstance(node, ast.AST) else node}"
        )

    def call(self, func, cls, args, kwargs):
        """Call classmethod ``func`` with cls bound."""
        if not hasattr(self.model, "hook_funcs"):
            self.model.hook_funcs = set()
        self.model.hook_funcs.add(func)
        env = {}
        a = func.node.args
        params = [p.arg for p in a.args]
        if func.kind == "classmethod":
            env[params[0]] = cls
            params = params[1:]
        defaults = a.defaults
        for i, p in enumerate(params):
            if i < len(args):
                env[p] = args[i]
            elif p in kwargs:
                env[p] = kwargs[p]
            else:
                di = i - (len(params) - len(defaults))
                if di >= 0:
                    env[p] = self.model.consteval(func.module, defaults[di])
                else:
                    self.err(func, func.node, "missing argument " + p)
        frame = {"func": func, "env": env, "cls": cls}
        try:
            self.block(frame, func.node.body)
        except _Return as r:
            return r.value
        return None

    def block(self, fr, stmts):
        for st in stmts:
            self.stmt(fr, st)

    def stmt(self, fr, st):
        func = fr["func"]
        if isinstance(st, ast.Expr):
            if isinstance(st.value, ast.Constant):
                return
            self.expr(fr, st.value)
        elif isinstance(st, ast.Pass):
            return
        elif isinstance(st, (ast.Assign, ast.AnnAssign)):
            if st.value is None:
                return
            v = self.expr(fr, st.value)
            targets = st.targets if isinstance(st, ast.Assign) else [st.target]
            for t in targets:
                self.assign(fr, t, v)
        elif isinstance(st, ast.If):
            c = self.expr(fr, st.test)
            if isinstance(c, Opaque):
                self.err(func, st.test, "condition with opaque value")
            self.block(fr, st.body if c else st.orelse)
        elif isinstance(st, ast.For):
            it = self.expr(fr, st.iter)
            if not isinstance(it, (list, tuple)):
                self.err(func, st.iter, "iteration over non-sequence")
            for x in list(it):
                self.assign(fr, st.target, x)
                self.block(fr, st.body)
        elif isinstance(st, ast.FunctionDef):
            fi = getattr(st, "_funcinfo", None)
            if fi is None:
                self.err(func, st, "nested def without info")
            if "property" in fi.decorators:
                fr["env"][st.name] = Prop(fi)
            elif not fi.decorators:
                fr["env"][st.name] = fi
            else:
                self.err(func, st, "nested def decorator")
        elif isinstance(st, ast.Return):
            raise _Return(self.expr(fr, st.value) if st.value is not None else None)
        elif isinstance(st, ast.Try):
            # class hooks do not raise at definition time (a raise is an AnalysisError): body, else, finally
            self.block(fr, st.body)
            self.block(fr, st.orelse)
            self.block(fr, st.finalbody)
        elif isinstance(st, ast.With):
            for it in st.items:
                v = self.expr(fr, it.context_expr)
                if it.optional_vars is not None:
                    self.assign(fr, it.optional_vars, v)
            self.block(fr, st.body)
        elif isinstance(st, ast.AugAssign):
            cur = self.expr(fr, st.target)
            v = self.expr(fr, st.value)
            try:
                if isinstance(st.op, ast.Add):
                    nv = cur + v
                elif isinstance(st.op, ast.BitOr):
                    nv = cur | v
                elif isinstance(st.op, ast.Sub):
                    nv = cur - v
                else:
                    self.err(func, st, "augmented assignment operator")
            except TypeError:
                self.err(func, st, "augmented assignment operands")
            self.assign(fr, st.target, nv)
        elif isinstance(st, (ast.Assert, ast.Global, ast.Nonlocal, ast.Import, ast.ImportFrom)):
            return
        elif isinstance(st, ast.Raise):
            raise AnalysisError(
                f"{func.module.path}:{st.lineno}: class hook raises at definition time for {fr['cls'].name}: {ast.unparse(st)[:80]}"
            )
        else:
            self.err(func, st, "statement")

    def assign(self, fr, target, v):
        func = fr["func"]
        if isinstance(target, ast.Name):
            fr["env"][target.id] = v
        elif isinstance(target, ast.Attribute):
            obj = self.expr(fr, target.value)
            if isinstance(obj, ClassInfo):
                obj.cdict[target.attr] = v
            else:
                self.err(func, target, "attribute assignment on non-class")
        elif isinstance(target, ast.Subscript):
            obj = self.expr(fr, target.value)
            k = self.expr(fr, target.slice)
            if isinstance(obj, dict):
                obj[k] = v
            else:
                self.err(func, target, "subscript assignment")
        elif isinstance(target, ast.Tuple):
            for t, x in zip(target.elts, v):
                self.assign(fr, t, x)
        else:
            self.err(func, target, "assignment target")

    def getattr_(self, fr, obj, name, node):
        func = fr["func"]
        m = self.model
        if isinstance(obj, ClassInfo):
            if name == "__dict__":
                return _OwnDict(obj)
            if name == "__mro__":
                return tuple(obj.mro)
            if name == "__name__":
                return obj.name
            owner, v = m.lookup(obj, name)
            if owner is None:
                self.err(func, node, f"unknown class attribute {obj.name}.{name}")
            if isinstance(v, Method):
                if v.func.kind == "classmethod":
                    return BoundCM(obj, v.func)
                return v.func
            return v
        if isinstance(obj, ExtClass):
            self.err(func, node, f"attribute of external class {obj.name}")
        if isinstance(obj, _Super):
            owner, v = m.lookup(obj.cls, name, after=obj.defining)
            if owner is None:
                self.err(func, node, f"super() has no {name}")
            if isinstance(v, Method):
                if v.func.kind == "classmethod":
                    return BoundCM(obj.cls, v.func)
                return v.func
            return v
        if isinstance(obj, list) and name in ("append", "extend"):
            return (obj, name)
        self.err(func, node, "attribute access")

    def expr(self, fr, e):
        func = fr["func"]
        m = self.model
        env = fr["env"]
        if isinstance(e, ast.Constant):
            return e.value
        if isinstance(e, ast.Name):
            if e.id in env:
                return env[e.id]
            try:
                return m.consteval(func.module, e)
            except Unevaluable:
                self.err(func, e, "name")
        if isinstance(e, ast.Attribute):
            obj = self.expr(fr, e.value)
            return self.getattr_(fr, obj, e.attr, e)
        if isinstance(e, ast.Subscript):
            obj = self.expr(fr, e.value)
            if isinstance(e.slice, ast.Slice):
                lo = self.expr(fr, e.slice.lower) if e.slice.lower is not None else None
                hi = self.expr(fr, e.slice.upper) if e.slice.upper is not None else None
                st = self.expr(fr, e.slice.step) if e.slice.step is not None else None
                k = slice(lo, hi, st)
            else:
                k = self.expr(fr, e.slice)
            try:
                return obj[k]
            except Exception:
                self.err(func, e, "subscript")
        if isinstance(e, (ast.List, ast.Tuple)):
            vals = [self.expr(fr, x) for x in e.elts]
            return vals if isinstance(e, ast.List) else tuple(vals)
        if isinstance(e, ast.Dict):
            return {self.expr(fr, k): self.expr(fr, v) for k, v in zip(e.keys, e.values)}
        if isinstance(e, ast.UnaryOp) and isinstance(e.op, ast.Not):
            v = self.expr(fr, e.operand)
            if isinstance(v, Opaque):
                self.err(func, e, "not on opaque")
            return not v
        if isinstance(e, ast.BoolOp):
            vals = []
            for x in e.values:
                v = self.expr(fr, x)
                if isinstance(e.op, ast.Or) and v:
                    return v
                if isinstance(e.op, ast.And) and not v:
                    return v
                vals.append(v)
            return vals[-1]
        if isinstance(e, ast.Compare) and len(e.ops) == 1:
            a = self.expr(fr, e.left)
            b = self.expr(fr, e.comparators[0])
            op = e.ops[0]
            if isinstance(op, (ast.In, ast.NotIn)):
                if isinstance(b, _OwnDict):
                    r = a in b.cls.body_assigned or (a in b.cls.cdict)
                else:
                    try:
                        r = a in b
                    except Exception:
                        self.err(func, e, "membership")
                return r if isinstance(op, ast.In) else not r
            if isinstance(op, ast.Is):
                return a is b
            if isinstance(op, ast.IsNot):
                return a is not b
            if isinstance(op, ast.Eq):
                return a == b
            if isinstance(op, ast.NotEq):
                return a != b
            self.err(func, e, "comparison")
        if isinstance(e, ast.ListComp) and len(e.generators) == 1:
            g = e.generators[0]
            it = self.expr(fr, g.iter)
            out = []
            if not isinstance(it, (list, tuple)):
                self.err(func, g.iter, "comprehension over non-sequence")
            for x in it:
                self.assign(fr, g.target, x)
                if all(self.expr(fr, c) for c in g.ifs):
                    out.append(self.expr(fr, e.elt))
            return out
        if isinstance(e, ast.Call):
            return self.call_expr(fr, e)
        if isinstance(e, ast.IfExp):
            c = self.expr(fr, e.test)
            if isinstance(c, Opaque):
                self.err(func, e.test, "condition with opaque value")
            return self.expr(fr, e.body if c else e.orelse)
        if isinstance(e, ast.JoinedStr):
            out = ""
            for x in e.values:
                out += x.value if isinstance(x, ast.Constant) else str(self.expr(fr, x.value))
            return out
        if isinstance(e, ast.BinOp):
            a, b = self.expr(fr, e.left), self.expr(fr, e.right)
            try:
                if isinstance(e.op, ast.Add):
                    return a + b
                if isinstance(e.op, ast.BitOr):
                    return a | b
                if isinstance(e.op, ast.Sub):
                    return a - b
                if isinstance(e.op, ast.Mult):
                    return a * b
            except TypeError:
                pass
            self.err(func, e, "binary operation")
        if isinstance(e, ast.Set):
            return frozenset(self.expr(fr, x) for x in e.elts)
        self.err(func, e, "expression")

    def call_expr(self, fr, e):
        func = fr["func"]
        m = self.model
        d = _dotted(e.func)
        if d == "super" and not e.args:
            return _Super(func.cls, fr["cls"])
        if d == "isabstract" or d == "inspect.isabstract":
            c = self.expr(fr, e.args[0])
            return m.is_abstract(c)
        if d == "hasattr":
            o = self.expr(fr, e.args[0])
            n = self.expr(fr, e.args[1])
            if isinstance(o, (ClassInfo, ExtClass)):
                owner, v = m.lookup(o, n)
                return owner is not None
            self.err(func, e, "hasattr")
        if d in ("RLock", "threading.RLock", "Lock", "threading.Lock"):
            return Opaque("RLock", e)
        if d in ("len", "list", "tuple", "set", "frozenset", "sorted", "dict", "bool", "str", "reversed") and len(e.args) <= 1 and not e.keywords:
            args = [self.expr(fr, a) for a in e.args]
            try:
                r = {"len": len, "list": list, "tuple": tuple, "set": frozenset, "frozenset": frozenset, "sorted": sorted, "dict": dict, "bool": bool, "str": str, "reversed": lambda x: list(reversed(x))}[d](*args)
                return r
            except Exception:
                self.err(func, e, "builtin call")
        if d == "getattr" and len(e.args) == 3:
            o = self.expr(fr, e.args[0])
            n = self.expr(fr, e.args[1])
            if isinstance(o, (ClassInfo, ExtClass)):
                owner, v = m.lookup(o, n)
                if owner is None:
                    return self.expr(fr, e.args[2])
                return self.getattr_(fr, o, n, e)
        if d == "issubclass" and len(e.args) == 2:
            a = self.expr(fr, e.args[0])
            b = self.expr(fr, e.args[1])
            if isinstance(a, ClassInfo) and isinstance(b, (ClassInfo, ExtClass)):
                return b in a.mro
        if d == "logger.debug" or (d or "").startswith("logger.") or d in ("print", "warnings.warn"):
            return None
        r_ext = m.resolve_dotted(func.module, e.func) if isinstance(e.func, (ast.Name, ast.Attribute)) else None
        if r_ext is not None and r_ext[0] == "ext" and r_ext[1].split(".")[-1][:1].isupper():
            # an object of a class from outside the package (weakref.WeakValueDictionary(), OrderedDict(), ...)
            return Opaque("ext:" + r_ext[1], e)
        callee = self.expr(fr, e.func)
        args = [self.expr(fr, a) for a in e.args]
        kwargs = {k.arg: self.expr(fr, k.value) for k in e.keywords}
        if isinstance(callee, BoundCM):
            return DefEval(m).call(callee.func, callee.cls, args, kwargs)
        if isinstance(callee, tuple) and len(callee) == 2 and isinstance(callee[0], list):
            getattr(callee[0], callee[1])(*args)
            return None
        if isinstance(callee, ClassInfo):
            return Inst(callee, args, kwargs, e)
        self.err(func, e, "call")
