"""Runner: one property, one tier -> verdict lines, evidence, exit code."""
import importlib
import multiprocessing as mp
import os
import sys
import time
import traceback

from . import AnalysisError
from .engine import Analysis
from .report import Report, finish

_A = {}


def _analysis(root):
    if root not in _A:
        _A[root] = Analysis(root)
    return _A[root]


def _worker(job):
    prop, root, unit, tier = job
    try:
        mod = importlib.import_module(f"vsa.rules.{prop.lower()}")
        A = _analysis(root)
        rep = Report(prop)
        mod.run_unit(A, unit, rep, tier)
        d = rep.dump()
        d["stats"] = dict(A.stats)
        return ("ok", unit, d)
    except AnalysisError as e:
        return ("analysis-error", unit, str(e))
    except Exception:
        return ("crash", unit, traceback.format_exc())


def run_property(prop, tier="quick", root="/repo", jobs=None, out=print, evidence_dir=None, replay_dir=None, cmd=""):
    t0 = time.time()
    seed = int(os.environ.get("VERIF_SEED", "0") or 0)
    try:
        mod = importlib.import_module(f"vsa.rules.{prop.lower()}")
    except ImportError as e:
        out(f"ANALYSIS-ERROR: property={prop} no rule module: {e}")
        return 2
    try:
        A = _analysis(root)
        units = mod.units(A, tier)
    except AnalysisError as e:
        out(f"ANALYSIS-ERROR: property={prop} {e}")
        return 2
    except Exception:
        out(f"ANALYSIS-ERROR: property={prop} internal error\n{traceback.format_exc()}")
        return 2
    jobs = jobs or int(os.environ.get("VERIF_JOBS", "0") or 0) or min(16, os.cpu_count() or 1)
    joblist = [(prop, root, u, tier) for u in units]
    if jobs > 1 and len(joblist) > 1:
        ctx = mp.get_context("fork")
        with ctx.Pool(min(jobs, len(joblist))) as pool:
            results = pool.map(_worker, joblist, chunksize=1)
    else:
        results = [_worker(j) for j in joblist]
    rep = Report(prop)
    stats = {"units": len(units), "graphs": 0, "nodes": 0, "resolved_calls": 0, "recursion_cuts": 0}
    bad = False
    for status, unit, payload in results:
        if status != "ok":
            out(f"ANALYSIS-ERROR: property={prop} unit={unit}: {payload}")
            bad = True
            continue
        rep.merge(payload)
        for k in ("graphs", "nodes", "resolved_calls", "recursion_cuts"):
            stats[k] += payload["stats"].get(k, 0)
    stats["modules"] = len(A.model.modules)
    stats["classes"] = len(A.model.class_order)
    stats["concrete_classes"] = len(A.model.concrete_classes())
    stats["functions"] = len(A.model.functions)
    stats["stdlib_mixins_parsed"] = A.model.abc_path
    meta = mod.META
    try:
        if hasattr(mod, "finalize"):
            mod.finalize(A, rep, tier)
    except AnalysisError as e:
        out(f"ANALYSIS-ERROR: property={prop} {e}")
        bad = True
    extra = None
    has_unlisted = False
    if tier == "thorough" and not bad:
        from .report import load_known
        from .selftest import run_variants

        known = load_known()[0].get(prop, {})
        has_unlisted = any(k not in known for k in rep.findings)
        if not has_unlisted:
            vres = run_variants([prop], root=root, jobs=jobs)
            vbad = [r for r in vres if r["status"] == "FAILED"]
            extra = {
                "liveness_variants_run": len([r for r in vres if r["status"] != "skipped"]),
                "liveness_variants_as_expected": len([r for r in vres if r["status"] == "ok"]),
                "liveness_variants_skipped": [r["variant"] + ": " + r.get("why", "") for r in vres if r["status"] == "skipped"],
                "liveness_variants": [{k: r.get(k) for k in ("variant", "expected", "exit", "status", "violations", "wall_s")} for r in vres],
            }
            for r in vbad:
                out(f"ANALYSIS-ERROR: property={prop} liveness variant {r['variant']} not judged as expected (expected {r.get('expected')}, exit {r.get('exit')}, reported {r.get('violations')})")
                bad = True
    code = finish(
        rep, tier, seed, meta["level"], time.time() - t0,
        {"root": root, "cmd": cmd or f"./vcheck run {prop} --tier {tier}"},
        stats, meta["explanation"], meta["rule"], meta.get("trusted_base", []),
        meta.get("assumptions", []) + [f"{k}: {v}" for k, v in sorted(A.model.flags_assumed.items())][:8],
        out=out, evidence_dir=evidence_dir, replay_dir=replay_dir, extra=extra,
    )
    if bad:
        return 2
    return code
