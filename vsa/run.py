"""Runner: one property, one tier -> verdict lines, evidence, exit code."""
import importlib
import multiprocessing as mp
import os
import sys
import time
import traceback

from . import AnalysisError
from .engine import Analysis
from .report import Report, finish

_A = {}


def _analysis(root):
    if root not in _A:
        _A[root] = Analysis(root)
    return _A[root]


def _worker(job):
    prop, root, unit, tier = job
    try:
        mod = importlib.import_module(f"vsa.rules.{prop.lower()}")
        A = _analysis(root)
        rep = Report(prop)
        mod.run_unit(A, unit, rep, tier)
        d = rep.dump()
        d["stats"] = dict(A.stats)
        return ("ok", unit, d)
    except AnalysisError as e:
        return ("analysis-error", unit, str(e))
    except Exception:
        return ("crash", unit, traceback.format_exc())


def run_property(prop, tier="quick", root="/repo", jobs=None, out=print, evidence_dir=None, replay_dir=None, cmd=""):
    t0 = time.time()
    seed = int(os.environ.get("VERIF_SEED", "0") or 0)
    try:
        mod = importlib.import_module(f"vsa.rules.{prop.lower()}")
    except ImportError as e:
        out(f"ANALYSIS-ERROR: property={prop} no rule module: {e}")
        return 2
    try:
        A = _analysis(root)
        units = mod.units(A, tier)
    except AnalysisError as e:
        out(f"ANALYSIS-ERROR: property={prop} {e}")
        return 2
    except Exception:
        out(f"ANALYSIS-ERROR: property={prop} internal error\n{traceback.format_exc()}")
        return 2
    jobs = jobs or int(os.environ.get("VERIF_JOBS", "0") or 0) or min(16, os.cpu_count() or 1)
    joblist = [(prop, root, u, tier) for u in units]
    if jobs > 1 and len(joblist) > 1:
        ctx = mp.get_context("fork")
        with ctx.Pool(min(jobs, len(joblist))) as pool:
            results = pool.map(_worker, joblist, chunksize=1)
    else:
        results = [_worker(j) for j in joblist]
    rep = Report(prop)
    stats = {"units": len(units), "graphs": 0, "nodes": 0, "resolved_calls": 0, "recursion_cuts": 0}
    bad = False
    for status, unit, payload in results:
        if status != "ok":
            out(f"ANALYSIS-ERROR: property={prop} unit={unit}: {payload}")
            bad = True
            continue
        rep.merge(payload)
        for k in ("graphs", "nodes", "resolved_calls", "recursion_cuts"):
            stats[k] += payload["stats"].get(k, 0)
    stats["modules"] = len(A.model.modules)
    stats["classes"] = len(A.model.class_order)
    stats["concrete_classes"] = len(A.model.concrete_classes())
    stats["functions"] = len(A.model.functions)
    stats["stdlib_mixins_parsed"] = A.model.abc_path
    meta = mod.META
    try:
        if hasattr(mod, "finalize"):
            mod.finalize(A, rep, tier)
    except AnalysisError as e:
        out(f"ANALYSIS-ERROR: property={prop} {e}")
        bad = True
    extra = None
    has_unlisted = False
    if tier == "thorough" and not bad:
        from .report import load_known
        from .selftest import run_variants

        known = load_known()[0].get(prop, {})
        has_unlisted = any(k not in known for k in rep.findings)
        if not has_unlisted:
            vres = run_variants([prop], root=root, jobs=jobs)
            vbad = [r for r in vres if r["status"] == "FAILED"]
            extra = {
                "liveness_variants_run": len([r for r in vres if r["status"] != "skipped"]),
                "liveness_variants_as_expected": len([r for r in vres if r["status"] == "ok"]),
                "liveness_variants_skipped": [r["variant"] + ": " + r.get("why", "") for r in vres if r["status"] == "skipped"],
                "liveness_variants": [{k: r.get(k) for k in ("variant", "expected", "exit", "status", "violations", "wall_s")} for r in vres],
            }
            for r in vbad:
                out(f"ANALYSIS-ERROR: property={prop} liveness variant {r['variant']} not judged as expected (expected {r.get('expected')}, exit {r.get('exit')}, reported {r.get('violations')})")
                bad = True
    code = finish(
        rep, tier, seed, meta["level"], time.time() - t0,
        {"root": root, "cmd": cmd or f"./vcheck run {prop} --tier {tier}"},
        stats, meta["explanation"], meta["rule"], meta.get("trusted_base", []),
        meta.get("assumptions", []) + [f"{k}: {v}" for k, v in sorted(A.model.flags_assumed.items())][:8],
        out=out, evidence_dir=evidence_dir, replay_dir=replay_dir, extra=extra,
    )
    if bad:
        return 2
    return code


# ---------------------------------------------------------------------------
# all properties on one tree in one pool (used by tools/seedcheck.py): workers keep one Analysis each, and the
# jobs of one class are bundled so that the context graphs built for one property are reused by the others.
# The verdict per property is computed exactly as in run_property (same units, same finalize, same known list).
# ---------------------------------------------------------------------------
def _bundle_worker(job):
    root, bundle, tier = job
    return [_worker((prop, root, unit, tier)) + (prop,) for prop, unit in bundle]


def run_multi(props, root="/repo", jobs=None, tier="quick"):
    """-> {prop: (exit code, [unlisted violation keys], [analysis errors])}"""
    from .report import load_known
    out = {}
    mods = {}
    A = None
    try:
        A = _analysis(root)
    except AnalysisError as e:
        return {p: (2, [], [str(e)]) for p in props}
    except Exception:
        return {p: (2, [], [traceback.format_exc()[-600:]]) for p in props}
    units = {}
    for p in props:
        try:
            mods[p] = importlib.import_module(f"vsa.rules.{p.lower()}")
            units[p] = mods[p].units(A, tier)
        except AnalysisError as e:
            out[p] = (2, [], [str(e)])
        except Exception:
            out[p] = (2, [], [traceback.format_exc()[-600:]])
    bundles = {}
    for p, us in units.items():
        if p in out:
            continue
        for u in us:
            # the two halves of a class: write-oriented and read-oriented properties share few graphs
            half = "w" if p in ("C01", "C04", "C09", "C10", "C11", "C16", "C03", "C18") else "r"
            key = (u[0], u[1], half) if u[0] == "class" else (u[0], u[1], p)
            bundles.setdefault(key, []).append((p, u))
    joblist = [(root, b, tier) for _, b in sorted(bundles.items(), key=lambda kv: -len(kv[1]))]
    jobs = jobs or min(16, os.cpu_count() or 1)
    if jobs > 1 and len(joblist) > 1:
        ctx = mp.get_context("fork")
        with ctx.Pool(min(jobs, len(joblist))) as pool:
            results = pool.map(_bundle_worker, joblist, chunksize=1)
    else:
        results = [_bundle_worker(j) for j in joblist]
    reps = {p: Report(p) for p in units if p not in out}
    errs = {p: [] for p in reps}
    for res in results:
        for status, unit, payload, p in res:
            if status != "ok":
                errs[p].append(f"unit={unit}: {str(payload)[-500:]}")
            else:
                reps[p].merge(payload)
    known_all = load_known()[0]
    for p, rep in reps.items():
        try:
            if hasattr(mods[p], "finalize"):
                mods[p].finalize(A, rep, tier)
        except AnalysisError as e:
            errs[p].append(str(e))
        code = 0
        for what, got, minimum in rep.floors:
            if got < minimum:
                errs[p].append(f"instance floor not met: {what}: {got} < {minimum}")
        known = known_all.get(p, {})
        keys = sorted(k for k in rep.findings if k not in known)
        if keys:
            code = 1
        if errs[p]:
            code = 2 if not keys else 1
        out[p] = (code, keys, errs[p])
    return out
