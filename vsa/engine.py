"""Analysis session: models, graph cache, entry points, semantic event
predicates shared by the rule modules."""
import ast
import time

from . import AnalysisError
from .graph import Val, show
from .interp import Builder, Ctx
from .interp_expr import cattr_origin, data_origin, derives
from .model import ABC_MOD, ClassInfo, ExtClass, Method, Model, Prop

PROTOCOL_DUNDERS = {
    "__getitem__", "__setitem__", "__delitem__", "__iter__", "__len__", "__call__", "__eq__", "__ne__",
    "__repr__", "__str__", "__contains__", "__reversed__", "__lt__", "__le__", "__gt__", "__ge__",
    "__iadd__", "__getattr__", "__setattr__", "__delattr__",
}
READ_API = {
    "__getitem__", "get", "__len__", "__iter__", "__contains__", "__eq__", "__ne__", "__lt__", "__le__", "__gt__", "__ge__",
    "__repr__", "__str__", "__call__", "keys", "values", "items", "__reversed__", "index", "count", "__getattr__",
}
MUT_API = {
    "__setitem__", "__delitem__", "pop", "popitem", "clear", "update", "setdefault", "insert", "append", "extend",
    "__iadd__", "remove", "reverse", "reset", "__setattr__", "__delattr__", "sort",
}
NOT_DATA_API = {"__deepcopy__", "__init__", "__init_subclass__", "__subclasshook__", "__class_getitem__"}

WRITE_SINK_FUNCS = {
    "os.replace", "os.rename", "os.remove", "os.unlink", "os.truncate", "os.rmdir", "os.makedirs", "os.mkdir",
    "shutil.move", "shutil.copy", "shutil.copyfile", "shutil.rmtree", "os.write", "os.ftruncate", "os.link", "os.symlink",
}
PURE_HANDLE_METHODS = {"items", "encode", "decode", "startswith", "endswith", "format", "copy", "split", "join", "lower", "upper", "strip"}
READ_HANDLE_METHODS = {"get", "find_one", "find", "keys", "exists", "__getitem__", "__contains__", "read", "stat", "array_keys"}


class Analysis:
    def __init__(self, root="/repo"):
        self.root = root
        t = time.time()
        self.model = Model(root, threading=True)
        self.model_off = None
        self.cache = {}
        self.stats = {"graphs": 0, "nodes": 0, "resolved_calls": 0, "recursion_cuts": 0, "model_s": round(time.time() - t, 3)}
        self._eps = {}
        self._kind = {}

    def m(self, threading=True):
        if threading:
            return self.model
        if self.model_off is None:
            self.model_off = Model(self.root, threading=False)
        return self.model_off

    # ------------------------------------------------------------- graphs
    def graph(self, cls, meth, rho="root", mu="none", wc=None, threading=True, counts=None, func=None, recv=None, args=None, kwargs=None, inline_ctor=False, opaque=()):
        """Event graph of ``cls.meth`` in a context (cached)."""
        model = self.m(threading)
        if isinstance(cls, str):
            cls = model.find_class(cls)
        elif not threading:
            cls = model.find_class(cls.name)
        key = (cls.qualname, meth if func is None else func.qualname, rho, mu, wc, threading, tuple(sorted((counts or {}).items())), show(recv) if recv is not None else None, repr(args), repr(kwargs), inline_ctor, tuple(opaque))
        if key in self.cache:
            return self.cache[key]
        ctx = Ctx(cls, rho, mu, wc, counts=counts, inline_ctor=inline_ctor, opaque=opaque)
        b = Builder(model, ctx)
        if func is None:
            owner, v = model.lookup(cls, meth)
            if v is None and meth == "__ne__":
                owner, v = model.lookup(cls, "__eq__")
            if not isinstance(v, Method):
                raise AnalysisError(f"{cls.name}.{meth} is not a method")
            func = v.func
        if recv is None:
            recv = Val("inst", (cls,), rho, "T")
        g = b.run(func, recv, args, kwargs)
        g.live = g.live_nodes()
        g.ctx = ctx
        g.label = f"{cls.name}.{meth}[{rho},{mu}" + (f",wc={wc}" if wc is not None else "") + ("" if threading else ",threads-off") + "]"
        self.stats["graphs"] += 1
        self.stats["nodes"] += len(g.live)
        self.stats["resolved_calls"] += b.resolved_calls
        self.stats["recursion_cuts"] += b.recursion_cuts
        self.cache[key] = (b, g)
        return b, g

    def ctx_exit_graph(self, cls, which, count, other=0, threading=True, method="__exit__", exc=False, fields=None):
        """Graph of leaving (or entering) a buffering context of ``cls``:
        which = 'obj' (obj.buffered) or 'backend' (cls.buffer_backend()),
        count = value of that context's counter on entry to the call,
        other = value of the other counter."""
        model = self.m(threading)
        cls = model.find_class(cls if isinstance(cls, str) else cls.name)
        key = ("ctx", cls.qualname, which, count, other, threading, method, exc, tuple(sorted((fields or {}).items(), key=lambda kv: kv[0])))
        if key in self.cache:
            return self.cache[key]
        counts = {("T", "buffered"): count if which == "obj" else other, ("C", "_buffer_context"): count if which == "backend" else other}
        ctx = Ctx(cls, "root", "none", None, counts=counts)
        b = Builder(model, ctx)
        inst = Val("inst", (cls,), "root", "T")
        b.g.entry = b.g.add("scratch", {}, ("<scratch>", 0), "<scratch>", (), "").id
        b.exc_stack = [b.g.add("scratch", {}, ("<scratch>", 0), "<scratch>", (), "").id]
        if which == "obj":
            cm, _ = b.ev_attr(inst, "buffered", {b.g.entry})
        else:
            cm, _ = b.class_attr(Val("cls", (cls,)), "_buffer_context", {b.g.entry})
        if cm.kind != "obj":
            raise AnalysisError(f"anchor: buffering context of {cls.name} ({which}) is not a known context-manager object: {show(cm)}")
        owner, v = model.lookup(cm.args[0], method)
        if not isinstance(v, Method):
            raise AnalysisError(f"anchor: {cm.args[0].name}.{method} not found")
        b2 = Builder(model, ctx)
        b2.objfields = b.objfields
        for fk, fv in (fields or {}).items():
            # state the context object was given before the call (e.g. buffer_backend(capacity) stores the capacity)
            b2.objfields.setdefault(cm.args[1], {})[fk] = fv
        args = [Val("const", None)] * 3 if method == "__exit__" else []
        if exc and method == "__exit__":
            args = [Val("unknown", "exc")] * 3  # the block is left by an exception
        g = b2.run(v.func, cm, args, {})
        g.live = g.live_nodes()
        g.ctx = ctx
        g.label = f"{cls.name}.{'buffered' if which == 'obj' else 'buffer_backend()'}.{method}[count={count},other={other}{',exc' if exc else ''}{',' + '+'.join(sorted(fields)) if fields else ''}]"
        self.stats["graphs"] += 1
        self.stats["nodes"] += len(g.live)
        self.cache[key] = (b2, g)
        return b2, g

    # ------------------------------------------------------- entry points
    def concrete(self):
        cs = self.model.concrete_classes()
        if len(cs) < 18:
            raise AnalysisError(f"instance floor: only {len(cs)} concrete collection classes found (expected >= 18)")
        return cs

    def entry_points(self, cls):
        """Public data API of a concrete class: name -> FuncInfo."""
        if cls.qualname in self._eps:
            return self._eps[cls.qualname]
        out = {}
        for k in reversed(cls.mro):
            if isinstance(k, ExtClass):
                continue
            for name, v in k.cdict.items():
                if not isinstance(v, Method):
                    out.pop(name, None) if name in out and not isinstance(v, Method) else None
                    continue
                f = v.func
                if f.kind != "function" or name in NOT_DATA_API:
                    out.pop(name, None)
                    continue
                if name.startswith("__") and name.endswith("__"):
                    if name not in PROTOCOL_DUNDERS:
                        continue
                elif name.startswith("_"):
                    continue
                if f.is_abstract:
                    continue
                out[name] = f
        if "__eq__" in out and "__ne__" not in out:
            out["__ne__"] = out["__eq__"]
        self._eps[cls.qualname] = out
        return out

    def is_list(self, cls):
        return cls.is_subclass_of("MutableSequence")

    def is_buffered(self, cls):
        return cls.is_subclass_of("BufferedCollection")

    def supports_threading(self, cls):
        return self.model.lookup(cls, "_supports_threading")[1] is True

    def modes(self, cls):
        return ["none", "obj", "backend"] if self.is_buffered(cls) else ["none"]

    def classify(self, cls, name):
        """mutator | reader | other, from the effect automaton (DESIGN 1.5)."""
        key = (cls.qualname, name)
        if key in self._kind:
            return self._kind[key]
        # The dict / list protocol fixes what is a read and what is a write
        # (public API names, not implementation): an implementation that
        # saves from __len__ is a reader that writes, not a mutator.
        if name in READ_API:
            self._kind[key] = "reader"
            return "reader"
        if name in MUT_API:
            self._kind[key] = "mutator"
            return "mutator"
        b, g = self.graph(cls, name)
        kind = "other"
        if any(is_user_mut(n) for n in live(g)) or any(is_save_enter(n) for n in live(g)):
            kind = "mutator"
        elif any(n.kind == "data_read" for n in live(g)) or any(is_load_enter(n) for n in live(g)):
            kind = "reader"
        self._kind[key] = kind
        return kind

    def mutators(self, cls):
        return sorted(n for n in self.entry_points(cls) if self.classify(cls, n) == "mutator")

    def readers(self, cls):
        return sorted(n for n in self.entry_points(cls) if self.classify(cls, n) == "reader")


# ---------------------------------------------------------------------------
# semantic predicates over event nodes
# ---------------------------------------------------------------------------
def live(g):
    lv = g.live
    return [n for n in g.nodes if n.id in lv]


def tree_of(v):
    i = derives(v, "inst")
    return i.args[2] if i is not None else None


def is_data_mut(n):
    return n.kind == "data_mut"


def is_user_mut(n):
    """A mutation of the tree's data that is not part of a load-merge."""
    return n.kind == "data_mut" and not n.in_extent("_load") and not n.in_extent("_load_from_buffer") and n["owner"].args[2] == "T"


def is_merge_mut(n):
    return n.kind == "data_mut" and (n.in_extent("_load") or n.in_extent("_load_from_buffer"))


def is_enter(n, fname):
    return n.kind == "enter" and n["fname"] == fname


def is_leave(n, fname):
    return n.kind == "leave" and n["fname"] == fname


def recv_is_root_T(n):
    r = n["recv"]
    return r is not None and r.kind == "inst" and r.args[1] == "root" and r.args[2] == "T"


def is_save_enter(n):
    return n.kind == "enter" and n["fname"] in ("_save_to_resource", "_save_to_buffer")


def is_load_enter(n):
    return n.kind == "enter" and n["fname"] in ("_load_from_resource", "_load_from_buffer")


def open_mode(n):
    """Mode string of a builtins.open call node, '?' if not constant."""
    args = n["args"] or ()
    mode = None
    if len(args) >= 2:
        mode = args[1]
    for k, v in n["kwargs"] or ():
        if k == "mode":
            mode = v
    if mode is None:
        return "r"
    if mode.kind == "const" and isinstance(mode.args[0], str):
        return mode.args[0]
    return "?"


def recv_root(v):
    """Follow receiver / base links to the value a call chain starts from."""
    subs = 0
    for _ in range(20):
        if not isinstance(v, Val):
            return None
        if v.kind == "sub":
            subs += 1
            if subs > 1:
                return None  # handle[name][0]...: what is loaded out of a dataset is data
        if v.kind == "call" and v.args[1] is not None:
            if v.args[0] in READ_HANDLE_METHODS or v.args[0] in PURE_HANDLE_METHODS:
                return None  # what a read returns is data, not the backend handle
            v = v.args[1]
        elif v.kind == "elem":
            return None  # an element obtained by iterating is data
        elif v.kind == "sub":
            v = v.args[0]
        else:
            return v
    return v


def handle_of(n):
    """For call_unknown / sub_store / sub_read nodes: the instance field the
    receiver chain starts from (a backend handle such as _client, _group)."""
    r = n["recv"] if n.kind == "call_unknown" else n["base"]
    if r is None:
        return None
    root = recv_root(r)
    if root is not None and root.kind == "field" and root.args[0].kind == "inst":
        return root
    return None


def is_res_write(n):
    """Resource-mutating sink (DESIGN 1.6)."""
    if n.kind == "call_ext":
        c = n["callee"]
        if c in WRITE_SINK_FUNCS:
            return True
        if c == "builtins.open":
            m = open_mode(n)
            return any(ch in m for ch in "wax+?")
        return False
    if n.kind == "call_unknown":
        root = recv_root(n["recv"]) if n["recv"] is not None else None
        if root is not None and root.kind == "call" and root.args[0] == "builtins.open":
            return n["method"] in ("write", "writelines", "truncate")
        h = handle_of(n)
        if h is not None and n["method"] not in READ_HANDLE_METHODS and n["method"] not in PURE_HANDLE_METHODS:
            return h.args[1] != "_data"
        return False
    if n.kind == "sub_store":
        return handle_of(n) is not None
    return False


def is_res_read(n):
    if n.kind == "call_ext":
        c = n["callee"]
        if c == "builtins.open":
            m = open_mode(n)
            return not any(ch in m for ch in "wax")
        return c in ("os.stat", "os.path.getmtime", "os.path.getsize", "os.path.exists", "os.path.isfile")
    if n.kind == "call_unknown":
        h = handle_of(n)
        return h is not None and n["method"] in READ_HANDLE_METHODS and h.args[1] not in ("_data",)
    if n.kind == "sub_read":
        return handle_of(n) is not None
    return False


# ---------------------------------------------------------------------------
# lock analysis (C09, C10, C13, C14)
# ---------------------------------------------------------------------------
def lock_id(lockval):
    """Normalised identity of a lock value: col:<rho>:<tree> | buf | cls | <name>."""
    name, key = lockval.args
    if isinstance(key, Val):
        owner = derives(key, "inst")
        if owner is not None and key.kind != "const":
            return f"col:{owner.args[1]}:{owner.args[2]}"
    if "BUFFER" in str(name).upper():
        return "buf"
    if "cls" in str(name).lower():
        return "cls"
    return str(name)


def lock_dataflow(g):
    """node id -> set of lock states on entry; a state is a tuple of
    (lock id, acquiring function, acquiring statement) tokens."""
    def apply(n, st):
        if n.kind == "lock":
            lid = lock_id(n["lock"])
            if n["op"] == "+":
                if len(st) >= 8:
                    return st
                return st + ((lid, n.func, n.stmt),)
            for i in range(len(st) - 1, -1, -1):
                if st[i][0] == lid:
                    return st[:i] + st[i + 1:]
            return st
        return st

    return g.lock_states(apply, init=())


def held_ids(state):
    return {t[0] for t in state}


# ---------------------------------------------------------------------------
# "own logic" of an entry point: robust against extract-helper refactorings
# ---------------------------------------------------------------------------
PROTOCOL_NAMES = {
    "_load", "_save", "_load_from_resource", "_save_to_resource", "_load_from_buffer", "_save_to_buffer", "_update",
    "_validate", "_from_base", "_to_base", "_flush", "_flush_buffer", "_initialize_data_in_buffer", "__enter__", "__exit__",
    "_get_file_metadata", "set_buffer_capacity", "get_buffer_capacity", "_encode", "_decode", "_hash", "_is_buffered",
    "_thread_lock", "_buffer_lock", "_lock_id", "__init__", "is_base_type",
}


def _is_helper_frame(q):
    name = q.split(".")[-1]
    if name in PROTOCOL_NAMES or name in READ_API or name in MUT_API:
        return False
    return name.startswith("_") and not (name.startswith("__") and name.endswith("__"))


def eff_stack(stack):
    """The activation stack without closure frames (`outer.<locals>.inner`): a decorator's wrapper or a nested
    helper function is transparent - the code it runs belongs to the function that was wrapped / that defined it."""
    out = tuple(fr for fr in stack if ".<locals>." not in fr[0])
    return out if out else tuple(stack[-1:])


def depth(n):
    return len(eff_stack(n.stack))


def own_stack(stack):
    """True if the activation stack is the entry function itself, possibly
    followed only by private helper functions called on the same receiver
    (an 'extract method' refactoring must not move code out of a rule's view)."""
    stack = eff_stack(stack)
    if not stack:
        return False
    r0 = stack[0][1]
    n0 = stack[0][0].split(".")[-1]
    for q, r in stack[1:]:
        if q.split(".")[-1] == n0 and r == r0:
            continue  # super() delegation of the entry method itself
        if not _is_helper_frame(q):
            return False
        if r not in (r0, ""):
            # helpers on the class of the receiver (classmethods) are fine as well
            if not (r.startswith("type<") and r0.startswith("<")) and not (r0.startswith("type<") and r.startswith("type<")):
                return False
    return True


def own(n):
    return own_stack(n.stack)


def own_child(n):
    """The node is the direct activation record of a call made from the entry's own logic
    (stack = own prefix + one more frame)."""
    st = eff_stack(n.stack)
    return len(st) >= 2 and own_stack(st[:-1])
