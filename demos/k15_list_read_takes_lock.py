"""K15 (C10.c): loading a list calls the public extend(), which takes the collection lock of its tree - so READING a
collection that contains a list takes that collection's lock.  a.update(b) reads b while holding a's lock;
b.update(a) on another thread does the opposite: both threads block forever.
Exit 0 = both updates complete, 1 = deadlock.  (Schedule forced as in a sub-agent's demo for a seeded change:
a barrier after each thread's own load, i.e. inside its critical section.)"""
import os, sys, tempfile, threading

from synced_collections.backends.collection_json import JSONDict

tmp = tempfile.mkdtemp()
a = JSONDict(os.path.join(tmp, "a.json")); a["la"] = [1]
b = JSONDict(os.path.join(tmp, "b.json")); b["lb"] = [2]
import json


def grow(n):
    # the files grow behind the objects' backs (another process): the next load has new list elements to add
    for fn, key in ((a.filename, "la"), (b.filename, "lb")):
        with open(fn, "w") as f:
            json.dump({key: list(range(n))}, f)


barrier = threading.Barrier(2, timeout=5)
seen = threading.local()
orig_load = JSONDict._load_from_resource


def load_with_barrier(self):
    data = orig_load(self)
    if not getattr(seen, "done", False) and threading.current_thread().name in ("T1", "T2"):
        seen.done = True  # first load of this thread = load of its own collection, own lock held
        try:
            if barrier.wait() == 0:
                grow(4)  # another process appends to both files while both writers are in their critical sections
            barrier.wait()
        except threading.BrokenBarrierError:
            pass
    return data


JSONDict._load_from_resource = load_with_barrier
t1 = threading.Thread(target=lambda: a.update(b), name="T1", daemon=True)
t2 = threading.Thread(target=lambda: b.update(a), name="T2", daemon=True)
t1.start(); t2.start(); t1.join(8); t2.join(8)
if t1.is_alive() or t2.is_alive():
    print("DEADLOCK: a.update(b) and b.update(a) block each other (reading a nested list takes the collection lock)")
    os._exit(1)
JSONDict._load_from_resource = orig_load
print("ok", a(), b())
sys.exit(0)
