"""K16: entering buffer_backend(capacity) raised (the forced flush of set_buffer_capacity met a file changed by
someone else) after the context counter was incremented and the capacity installed; __exit__ is not called when
__enter__ raises, so the class stayed 'buffered' forever and the temporary capacity stayed in force."""
import json, os, sys, tempfile, time
from synced_collections.backends.collection_json import BufferedJSONDict
from synced_collections.errors import BufferedError

d = tempfile.mkdtemp()
fn = os.path.join(d, "a.json")
x = BufferedJSONDict(fn)
x["a"] = 0
cap0 = BufferedJSONDict.get_buffer_capacity()
bad = []
try:
    with BufferedJSONDict.buffer_backend():
        x["a"] = "y" * 100                      # buffered, modified
        time.sleep(0.01)
        with open(fn, "w") as f:                # someone else rewrites the file
            json.dump({"foreign": 1, "pad": "z" * 50}, f)
        try:
            with BufferedJSONDict.buffer_backend(buffer_capacity=1):   # forced flush in __enter__ -> conflict
                pass
        except BufferedError:
            pass
        else:
            print("note: entering did not raise")
except BufferedError:
    pass
y = BufferedJSONDict(os.path.join(d, "b.json"))
y["k"] = 1                                       # all contexts have exited: must be written through
if not os.path.exists(os.path.join(d, "b.json")):
    bad.append("write after all contexts exited did not reach the file (class still buffered)")
if y._is_buffered:
    bad.append("_is_buffered is still True after all contexts exited")
if BufferedJSONDict.get_buffer_capacity() != cap0:
    bad.append(f"capacity {BufferedJSONDict.get_buffer_capacity()} instead of {cap0} after all contexts exited")
if bad:
    print("DEFECT:", "; ".join(bad)); sys.exit(1)
print("ok")
