import weakref, tempfile, os, sys
from collections import UserDict, UserList
from synced_collections.backends.collection_json import JSONDict
def run(warm):
    d = JSONDict(os.path.join(tempfile.mkdtemp(), "a.json"))
    m = UserDict(a=1); l = UserList([1, 2])
    if warm:
        d["x"] = weakref.proxy(m)
    try:
        d["y"] = weakref.proxy(l)
        return repr(d["y"])
    except Exception as e:
        return type(e).__name__ + ": " + str(e)
import subprocess
if len(sys.argv) > 1:
    print(run(sys.argv[1] == "warm"))
else:
    a = subprocess.run([sys.executable, __file__, "cold"], capture_output=True, text=True).stdout.strip()
    b = subprocess.run([sys.executable, __file__, "warm"], capture_output=True, text=True).stdout.strip()
    print("fresh:", a); print("after warm-up:", b)
    sys.exit(0 if a == b else 1)
