"""Demonstrations of the genuine defects found by the static checks (one test
each).  They FAIL on the pinned tree (commit b7c0952) and PASS after the
corresponding `fix:` commit.  Not part of any registered check (the checks are
static); kept as the evidence the brief asks for before something is called a
defect.   Run:  PYTHONPATH=<tree> python3-vt -m pytest /verif/demos/test_defects.py
"""
import json
import os
import threading

import pytest

from synced_collections.backends.collection_json import (
    BufferedJSONDict,
    JSONAttrDict,
    JSONDict,
    JSONList,
    MemoryBufferedJSONDict,
    MemoryBufferedJSONList,
)
from synced_collections.errors import BufferedError
from synced_collections.validators import json_format_validator, require_string_key


@pytest.fixture
def fn(tmp_path):
    return str(tmp_path / "f.json")


def test_F1_lt_plain_operand(fn):
    assert (JSONList(fn, data=[1]) < [2]) is True


def test_F2_require_string_key_descends_lists():
    with pytest.raises(TypeError):
        require_string_key([{1: 2}])


def test_F3_attr_list_rejects_dotted_keys(fn):
    r = JSONAttrDict(fn)
    r["l"] = []
    with pytest.raises(ValueError):
        r["l"].append({"a.b": 1})
    with pytest.raises(ValueError):
        r.update({"l": [{"a.b": 1}]})


def test_F5_lock_released_when_load_raises(fn):
    d = JSONDict(fn)
    d["a"] = 1
    with open(fn, "w") as f:
        f.write("{ not json")
    with pytest.raises(ValueError):
        d["b"] = 2
    got = []
    t = threading.Thread(target=lambda: got.append(type(d)._locks[fn].acquire(timeout=1)))
    t.start()
    t.join()
    assert got == [True]


def test_F6_container_replaced_by_null(fn):
    d = JSONDict(fn)
    d["a"] = {"x": 1}
    with open(fn, "w") as f:
        json.dump({"a": None}, f)
    assert d() == {"a": None}


def test_F7_clear_under_shared_memory_buffering(fn):
    m = MemoryBufferedJSONDict(fn)
    m["a"] = 1
    with m.buffered:
        m["b"] = 2
        m.clear()
        assert m() == {}
    assert json.load(open(fn)) == {}


def test_F7_list_truncation_under_shared_memory_buffering(fn):
    lst = MemoryBufferedJSONList(fn)
    lst.reset([1, 2, 3])
    with lst.buffered:
        assert lst() == [1, 2, 3]
        lst.reset([9])
        assert lst() == [9]


def test_F8_shared_memory_flush_of_list(fn):
    lst = MemoryBufferedJSONList(fn)
    lst.reset([1, 2, 3])
    with MemoryBufferedJSONList.buffer_backend():
        with lst.buffered:
            lst.append(4)
    assert json.load(open(fn)) == [1, 2, 3, 4]


def test_F9_two_objects_one_file_serialized_flush(fn):
    a = BufferedJSONDict(fn)
    a["x"] = 0
    b = BufferedJSONDict(fn)
    with BufferedJSONDict.buffer_backend():
        a["x"]
        b["x"]
        a["w"] = 1
        # flush order is the registry's popitem order: make b go first
        reg = BufferedJSONDict._buffered_collections
        ida, idb = id(a), id(b)
        oa, ob = reg.pop(ida), reg.pop(idb)
        reg[ida] = oa
        reg[idb] = ob
    assert json.load(open(fn)).get("w") == 1


def test_F10_capacity_restored_after_conflict(fn):
    d = BufferedJSONDict(fn)
    d["a"] = 1
    before = BufferedJSONDict.get_buffer_capacity()
    with pytest.raises(BufferedError):
        with BufferedJSONDict.buffer_backend(12345):
            d["a"] = 2
            with open(fn, "w") as f:
                f.write('{"a": 1000000}')
    try:
        assert BufferedJSONDict.get_buffer_capacity() == before
        assert BufferedJSONDict._buffer_context._original_buffer_capacitys == []
    finally:
        BufferedJSONDict.set_buffer_capacity(before)
        BufferedJSONDict._buffer_context._original_buffer_capacitys.clear()


def test_F11_filename_change_keeps_old_lock(fn, tmp_path):
    a = JSONDict(fn)
    b = JSONDict(fn)
    a["x"] = 1
    a.filename = str(tmp_path / "g.json")
    b["y"] = 2
    assert b() == {"x": 1, "y": 2}


def test_F12_masked_array_classification_does_not_depend_on_history():
    np = pytest.importorskip("numpy")
    json_format_validator(np.ma.array([1, 2]))
    json_format_validator(np.ma.array(1))


def test_F13_forced_flush_keeps_size_consistent_when_stat_fails(fn, monkeypatch):
    cls = MemoryBufferedJSONDict
    d = cls(fn)
    d["a"] = 1
    with cls.buffer_backend():
        d["a"] = 2
        real = os.stat
        calls = {"n": 0}

        def flaky(path, *a, **k):
            if path == fn:
                calls["n"] += 1
                if calls["n"] == 2:  # 1: conflict check, 2: metadata refresh after the write
                    raise PermissionError(13, "injected", path)
            return real(path, *a, **k)

        monkeypatch.setattr(os, "stat", flaky)
        with pytest.raises(BufferedError):
            cls._flush_buffer(force=True)
        monkeypatch.setattr(os, "stat", real)
        modified = sum(1 for e in cls._buffer.values() if e["modified"])
        assert cls.get_current_buffer_size() == modified
    assert cls.get_current_buffer_size() == 0


def test_K1_nested_clear_keeps_other_handles_changes(fn):
    a = JSONDict(fn)
    a["child"] = {"x": 1}
    child = a["child"]
    b = JSONDict(fn)
    b["other"] = 5
    child.clear()
    assert json.load(open(fn)) == {"child": {}, "other": 5}


def test_K1_nested_reset_keeps_other_handles_changes(fn):
    a = JSONDict(fn)
    a["child"] = [1]
    child = a["child"]
    b = JSONDict(fn)
    b["other"] = 5
    child.reset([2])
    assert json.load(open(fn)) == {"child": [2], "other": 5}


class _Gate:
    """Lock proxy that parks thread 'B' just before it acquires the lock."""

    def __init__(self, real):
        self.real = real
        self.go = threading.Event()
        self.waiting = threading.Event()

    def __enter__(self):
        if threading.current_thread().name == "B":
            self.waiting.set()
            self.go.wait(5)
        return self.real.__enter__()

    def __exit__(self, *a):
        return self.real.__exit__(*a)


def test_K2_root_clear_is_one_critical_section(fn):
    d = JSONDict(fn)
    d["a"] = 0
    gate = _Gate(type(d)._locks[fn])
    type(d)._locks[fn] = gate
    try:
        tb = threading.Thread(target=d.clear, name="B")
        tb.start()
        assert gate.waiting.wait(5)
        d["k"] = 1  # a complete write by another thread while B is parked
        gate.go.set()
        tb.join(5)
    finally:
        type(d)._locks[fn] = gate.real
    # serial orders: clear;set -> {'k': 1}     set;clear -> {}
    assert json.load(open(fn)) in ({"k": 1}, {})


def test_K4_registration_survives_a_concurrent_forced_flush(tmp_path):
    """Reader thread R forces a buffer flush from a buffered read and is parked
    between the end of the registry loop and the registry write-back; writer W
    registers itself meanwhile.  W's registration must not be lost."""
    import sys

    cls = BufferedJSONDict
    fr, fw = str(tmp_path / "r.json"), str(tmp_path / "w.json")
    r, w = cls(fr), cls(fw)
    r["a"] = "x" * 50
    w["a"] = 0
    parked, go = threading.Event(), threading.Event()
    target = cls._flush_buffer.__func__.__code__  # SerializedFileBufferedCollection._flush_buffer -> super()
    import synced_collections.buffers.file_buffered_collection as fb

    code = fb.FileBufferedCollection._flush_buffer.__func__.__code__
    src_lines = open(fb.__file__).read().split("\n")
    flush_line = max(i + 1 for i, l in enumerate(src_lines) if "collection._flush(force=force)" in l)

    def tracer(frame, event, arg):
        if frame.f_code is not code:
            return tracer if event == "call" else None

        def local(frame, event, arg):
            text = src_lines[frame.f_lineno - 1].strip()
            after_loop = frame.f_lineno > flush_line
            if event == "line" and (text.startswith("if not issues") or (after_loop and text.startswith("with cls._BUFFER_LOCK"))):
                if not parked.is_set():
                    parked.set()
                    go.wait(5)
            return local

        return local

    def reader():
        sys.settrace(tracer)
        try:
            r["a"]
        finally:
            sys.settrace(None)

    before = cls.get_buffer_capacity()
    try:
        with cls.buffer_backend(30):
            t = threading.Thread(target=reader, name="R")
            t.start()
            assert parked.wait(5)
            w["b"] = 1
            go.set()
            t.join(5)
        assert json.load(open(fw)) == {"a": 0, "b": 1}
        assert cls.get_current_buffer_size() == 0
    finally:
        cls.set_buffer_capacity(before)
        cls._buffer.clear()
        cls._buffered_collections.clear()
        cls._CURRENT_BUFFER_SIZE = 0


def test_K2_list_pop_is_atomic(fn):
    lst = JSONList(fn)
    lst.reset([1, 2, 3])
    gate = _Gate(type(lst)._locks[fn])
    type(lst)._locks[fn] = gate
    out = []
    try:
        tb = threading.Thread(target=lambda: out.append(lst.pop()), name="B")
        tb.start()
        assert gate.waiting.wait(5)
        lst.append(4)  # a complete write by another thread while B is parked at its first lock request
        gate.go.set()
        tb.join(5)
    finally:
        type(lst)._locks[fn] = gate.real
    # serial orders: pop;append -> (3, [1,2,4])     append;pop -> (4, [1,2,3])
    assert (out[0], json.load(open(fn))) in ((3, [1, 2, 4]), (4, [1, 2, 3]))


def test_K3_root_clear_takes_locks_in_the_common_order(fn):
    """clear() on a buffered root took the collection lock and then the buffer
    lock; every other mutator takes them in the opposite order."""
    cls = BufferedJSONDict
    d = cls(fn)
    d["a"] = 0

    class BufProxy:
        def __init__(self, real):
            self.real = real
            self.t1_waiting = threading.Event()
            self.t2_has_it = threading.Event()
            self.deadlock = False

        def __enter__(self):
            me = threading.current_thread().name
            if me == "T1" and not self.t1_waiting.is_set():
                self.t1_waiting.set()
                self.t2_has_it.wait(3)
                if not self.real.acquire(timeout=2):
                    self.deadlock = True
                    raise RuntimeError("deadlock: T1 waits for the buffer lock held by T2, which waits for T1's collection lock")
                return True
            r = self.real.__enter__()
            if me == "T2":
                self.t2_has_it.set()
            return r

        def __exit__(self, *a):
            return self.real.__exit__(*a)

    proxy = BufProxy(cls._BUFFER_LOCK)
    cls._BUFFER_LOCK = proxy
    errs = []

    def t1():
        try:
            d.clear()
        except RuntimeError as e:
            errs.append(e)

    try:
        with cls.buffer_backend():
            a = threading.Thread(target=t1, name="T1")
            a.start()
            assert proxy.t1_waiting.wait(3)
            b = threading.Thread(target=lambda: d.__setitem__("x", 1), name="T2")
            b.start()
            a.join(10)
            b.join(10)
    finally:
        cls._BUFFER_LOCK = proxy.real
    assert not proxy.deadlock, errs


def test_K6_reset_through_second_object_under_shared_memory_buffering(fn):
    """Two objects on one file in one backend-wide context (shared-memory
    strategy): a write through the object that does not own the buffer entry
    and has not loaded in this buffered state (a root reset/clear) was lost."""
    cls = MemoryBufferedJSONDict
    a, b = cls(fn), cls(fn)
    a["x"] = 0
    with cls.buffer_backend():
        a["x"] = 1  # a's container becomes the shared buffer entry
        b.reset({"y": 2})  # destructive: does not load first
        assert a() == {"y": 2}
        assert b() == {"y": 2}
    assert json.load(open(fn)) == {"y": 2}


@pytest.mark.xfail(reason="K7: known finding, not repaired (shared-memory design)", strict=True)
def test_K7_child_handle_survives_another_objects_buffer_entry(fn):
    cls = MemoryBufferedJSONDict
    a = cls(fn)
    a["x"] = {"k": 0}
    child = a["x"]
    b = cls(fn)
    with cls.buffer_backend():
        b["z"] = 1  # b creates the shared entry from its own container
        child["k"] = 5  # write through a's nested handle obtained earlier
        assert a() == {"x": {"k": 5}, "z": 1}
    assert json.load(open(fn)) == {"x": {"k": 5}, "z": 1}


def test_K8_update_replaces_equal_values_of_different_json_type(fn):
    d = JSONDict(fn)
    d["a"] = 1
    d["n"] = {"b": 1}
    d.update({"a": True, "n": {"b": 1.0}})
    assert open(fn).read() == '{"a": true, "n": {"b": 1.0}}'


def test_K9_registry_restored_when_a_forced_flush_reports_a_conflict(tmp_path):
    cls = MemoryBufferedJSONDict
    fa, fb = str(tmp_path / "a.json"), str(tmp_path / "b.json")
    a, b = cls(fa), cls(fb)
    a["x"] = 0
    b["y"] = 0
    cap = cls.get_buffer_capacity()
    try:
        with cls.buffer_backend(1):
            a["x"] = 1
            with open(fa, "w") as f:
                f.write('{"x": 12345}')  # outside change of a modified buffered file
            with pytest.raises(BufferedError):
                b["y"] = 1  # second modified file: capacity 1 exceeded -> forced flush -> conflict on a
            b["y"] = 2
        assert json.load(open(fb)) == {"y": 2}
        assert list(cls._buffer) == []  # once the contexts have exited the buffer is empty
        assert cls.get_current_buffer_size() == 0
    finally:
        cls.set_buffer_capacity(cap)
        cls._buffer.clear()
        cls._buffered_collections.clear()
        cls._CURRENT_BUFFER_SIZE = 0


def test_K11_shared_memory_flush_writes_the_buffered_contents(fn):
    cls = MemoryBufferedJSONDict
    a, b = cls(fn), cls(fn)
    a["x"] = 0
    with b.buffered:
        with a.buffered:
            a["x"]  # a only reads
            b.reset({"y": 2})
        # a's context exits first and flushes the file
    assert json.load(open(fn)) == {"y": 2}
    assert b() == {"y": 2}


def test_K12_forced_flush_keeps_the_baseline_of_entries_it_did_not_write(tmp_path):
    import time

    cls = MemoryBufferedJSONDict
    fa = str(tmp_path / "a.json")
    a = cls(fa)
    a["x"] = 0
    others = [cls(str(tmp_path / f"o{i}.json")) for i in range(2)]
    cap = cls.get_buffer_capacity()
    try:
        with pytest.raises(BufferedError):
            with cls.buffer_backend(1):
                a["x"]  # a enters the buffer, unmodified
                time.sleep(0.01)
                with open(fa, "w") as f:
                    f.write('{"x": 0, "foreign": 123456}')  # outside writer
                for o in others:
                    o["k"] = 1  # capacity exceeded: the forced flush visits a (unmodified)
                a["y"] = 1  # a modified on its stale copy
        assert json.load(open(fa)) == {"x": 0, "foreign": 123456}
    finally:
        cls.set_buffer_capacity(cap)
        cls._buffer.clear()
        cls._buffered_collections.clear()
        cls._CURRENT_BUFFER_SIZE = 0


# --- K13 (C14.e): Sequence.index reads the list through one load per element -------------------------------------------
def test_K13_index_reads_one_snapshot(tmp_path):
    """[1, 2, 3].index(3) next to a writer that removes the first element may return 2 (before) or 1 (after),
    but 3 is in the list at every moment: ValueError is caused only by the interleaving."""
    import threading

    from synced_collections.backends.collection_json import JSONCollection

    fn = str(tmp_path / "l.json")
    reader = JSONList(fn)
    reader.reset([1, 2, 3])
    writer = JSONList(fn)
    orig = JSONCollection._load_from_resource
    state = {"loads": 0, "done": False}
    me = threading.current_thread()

    def hooked(self):
        data = orig(self)
        if self is reader and threading.current_thread() is me and state["armed"]:
            state["loads"] += 1
            if state["loads"] == 2 and not state["done"]:
                state["done"] = True
                t = threading.Thread(target=lambda: writer.__delitem__(0))
                t.start()
                t.join(10)
        return data

    state["armed"] = True
    JSONCollection._load_from_resource = hooked
    try:
        assert reader.index(3) in (1, 2)
    finally:
        JSONCollection._load_from_resource = orig


# --- K14 / K15: stand-alone demo scripts (separate processes: fresh resolver caches / forced thread schedule) ----------
def _run_script(name):
    import os
    import subprocess
    import sys

    import synced_collections

    root = os.path.dirname(os.path.dirname(os.path.abspath(synced_collections.__file__)))
    env = dict(os.environ, PYTHONPATH=root)
    return subprocess.run([sys.executable, os.path.join(os.path.dirname(os.path.abspath(__file__)), name)], env=env, capture_output=True, text=True, timeout=120)


def test_K14_proxy_objects_do_not_prime_the_type_cache():
    r = _run_script("k14_proxy_history.py")
    assert r.returncode == 0, r.stdout + r.stderr


def test_K15_reading_a_list_takes_no_collection_lock():
    r = _run_script("k15_list_read_takes_lock.py")
    assert r.returncode == 0, r.stdout + r.stderr


def test_K16_failed_enter_of_backend_context_leaves_no_trace():
    r = _run_script("k16_enter_raises_stays_buffered.py")
    assert r.returncode == 0, r.stdout + r.stderr
