#!/venv/bin/python
"""Ad hoc: apply one textual edit to a scratch copy of /repo's package and run properties on it.
usage: mut.py <relfile> <old> <new> PROP [PROP...]"""
import os, shutil, subprocess, sys, tempfile
rel, old, new, props = sys.argv[1], sys.argv[2], sys.argv[3], sys.argv[4:]
d = tempfile.mkdtemp(prefix="vsa-mut-")
try:
    shutil.copytree("/repo/synced_collections", os.path.join(d, "synced_collections"))
    p = os.path.join(d, "synced_collections", rel)
    s = open(p).read()
    assert s.count(old) >= 1, "pattern not found"
    s = s.replace(old, new, 1)
    compile(s, p, "exec")
    open(p, "w").write(s)
    for prop in props:
        r = subprocess.run(["/verif/vcheck", "run", prop, "--root", d, "--evidence-dir", d + "/ev", "--replay-dir", d + "/rp"], capture_output=True, text=True)
        lines = [l for l in r.stdout.splitlines() if not l.startswith("    ")]
        print(f"== {prop} exit={r.returncode}")
        print("\n".join(l[:260] for l in lines[:14]))
        if r.stderr.strip():
            print(r.stderr[-2000:])
finally:
    shutil.rmtree(d, ignore_errors=True)
