#!/venv/bin/python
"""Regression over the kept seeded changes: every seed recorded as detected in its meta.json
must still be reported by (at least one of) the properties listed there, with the current engine.

usage: seedregress.py [-j N] [seed-id ...]
Each patch is applied to a scratch copy of /repo's working tree (removed afterwards)."""
import json, os, subprocess, sys
from concurrent.futures import ThreadPoolExecutor

ROOT = "/verif/seeded"


def one(sid):
    d = os.path.join(ROOT, sid)
    meta = json.load(open(os.path.join(d, "meta.json")))
    props = meta.get("detected_by") or []
    if not props:
        return sid, "undetected-before", ""
    r = subprocess.run(["/verif/tools/seedcheck.py", d] + props, capture_output=True, text=True)
    out = r.stdout
    if "PATCH FAILED" in out:
        return sid, "patch-failed", ""
    line = [l for l in out.splitlines() if l.startswith("DETECTED BY")]
    if line and "NONE" not in line[0]:
        err = "ANALYSIS-ERROR" in out
        return sid, "error" if err and "exit=1" not in out else "ok", line[0]
    return sid, "MISSED", out[-300:]


def main():
    args = sys.argv[1:]
    jobs = 4
    if args[:1] == ["-j"]:
        jobs = int(args[1])
        args = args[2:]
    ids = args or sorted(os.listdir(ROOT))
    bad = 0
    with ThreadPoolExecutor(jobs) as ex:
        for sid, st, info in ex.map(one, ids):
            if st != "ok":
                print(f"{sid}: {st} {info}")
                if st != "undetected-before":
                    bad += 1
    print(f"seedregress: {len(ids)} seeds, {bad} regressions")
    return 1 if bad else 0


sys.exit(main())
