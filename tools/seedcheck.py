#!/venv/bin/python
"""Run the quick checks against a seeded change.

usage: seedcheck.py <dir-with-patch.diff> [PROP ...]     (default: all 19)
The patch is applied to a scratch copy of /repo's working tree (equivalent to
`git -C /repo apply` + undo, but leaves /repo untouched); prints per property
the exit code and the violation keys."""
import os, shutil, subprocess, sys, tempfile, json
from concurrent.futures import ThreadPoolExecutor

ALL = [f"C{i:02d}" for i in range(1, 20)]


def main():
    d = sys.argv[1]
    props = sys.argv[2:] or ALL
    patch = os.path.join(d, "patch.diff")
    tmp = tempfile.mkdtemp(prefix="vsa-seed-")
    try:
        shutil.copytree("/repo/synced_collections", os.path.join(tmp, "synced_collections"), ignore=shutil.ignore_patterns("__pycache__"))
        r = subprocess.run(["patch", "-p1", "-s", "-i", os.path.abspath(patch)], cwd=tmp, capture_output=True, text=True)
        if r.returncode != 0:
            print("PATCH FAILED", r.stdout, r.stderr)
            return 2
        # one pool for all requested properties: context graphs are shared between them (vcheck multi)
        r = subprocess.run(["/verif/vcheck", "multi"] + props + ["--root", tmp], capture_output=True, text=True, cwd="/verif")
        caught = []
        cur = None
        shown = 0
        for l in r.stdout.splitlines():
            if len(l) > 4 and l[0] == "C" and ": exit=" in l:
                cur, code = l.split(": exit=")
                shown = 0
                if code.strip() != "0":
                    caught.append(cur)
                    print(f"{cur}: exit={code.strip()}")
                else:
                    cur = None
            elif cur is not None and l.strip().startswith("key: ") and shown < 8:
                print("     " + l.strip()[5:][:200])
                shown += 1
            elif cur is not None and l.strip().startswith("ANALYSIS-ERROR") and shown < 11:
                print("     " + l.strip()[:300])
                shown += 1
        if r.returncode not in (0, 1, 2) or (not r.stdout.strip()):
            print("     ANALYSIS-ERROR: vcheck multi failed:", (r.stdout + r.stderr)[-400:])
            caught.append("vcheck")
        print("DETECTED BY:", caught or "NONE")
        return 0
    finally:
        shutil.rmtree(tmp, ignore_errors=True)


sys.exit(main())
