#!/venv/bin/python
"""Run the quick checks against a seeded change.

usage: seedcheck.py <dir-with-patch.diff> [PROP ...]     (default: all 19)
The patch is applied to a scratch copy of /repo's working tree (equivalent to
`git -C /repo apply` + undo, but leaves /repo untouched); prints per property
the exit code and the violation keys."""
import os, shutil, subprocess, sys, tempfile, json
from concurrent.futures import ThreadPoolExecutor

ALL = [f"C{i:02d}" for i in range(1, 20)]


def main():
    d = sys.argv[1]
    props = sys.argv[2:] or ALL
    patch = os.path.join(d, "patch.diff")
    tmp = tempfile.mkdtemp(prefix="vsa-seed-")
    try:
        shutil.copytree("/repo/synced_collections", os.path.join(tmp, "synced_collections"), ignore=shutil.ignore_patterns("__pycache__"))
        r = subprocess.run(["patch", "-p1", "-s", "-i", os.path.abspath(patch)], cwd=tmp, capture_output=True, text=True)
        if r.returncode != 0:
            print("PATCH FAILED", r.stdout, r.stderr)
            return 2
        def run(p):
            r = subprocess.run(["/verif/vcheck", "run", p, "--root", tmp, "--evidence-dir", tmp + "/ev", "--replay-dir", tmp + "/rp", "--jobs", "4"], capture_output=True, text=True, cwd="/verif")
            keys = [l.strip()[5:] for l in r.stdout.splitlines() if l.strip().startswith("key: ")]
            errs = [l for l in r.stdout.splitlines() if l.startswith("ANALYSIS-ERROR")]
            return p, r.returncode, keys, errs
        caught = []
        with ThreadPoolExecutor(4) as ex:
            for p, code, keys, errs in ex.map(run, props):
                if code != 0:
                    caught.append(p)
                    print(f"{p}: exit={code}")
                    for k in keys[:8]:
                        print("    ", k[:200])
                    for e in errs[:3]:
                        print("    ", e[:300])
        print("DETECTED BY:", caught or "NONE")
        return 0
    finally:
        shutil.rmtree(tmp, ignore_errors=True)


sys.exit(main())
