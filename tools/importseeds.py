#!/venv/bin/python
"""Import verified seeded changes from /tmp/seed_Cnn/m<i> into /verif/seeded/<id>/ with meta.json."""
import json, os, re, shutil, subprocess, sys

RES = sys.argv[1] if len(sys.argv) > 1 else "/tmp/seedfull"
VER = sys.argv[2] if len(sys.argv) > 2 else "/tmp/seedverify2.log"
SRC = sys.argv[3] if len(sys.argv) > 3 else "seed"      # directory prefix under /tmp
TAG = sys.argv[4] if len(sys.argv) > 4 else ""          # id infix, e.g. r2
head = subprocess.run(["git", "-C", "/repo", "rev-parse", "--short", "HEAD"], capture_output=True, text=True).stdout.strip()
ver = {}
for l in open(VER):
    m = re.match(r"(C\d+_m\d) demo_clean=(\d+) demo_patched=(\d+) tests: (.*)", l)
    if m:
        ver[m.group(1)] = (int(m.group(2)), int(m.group(3)), m.group(4).strip())
out = []
for d in sorted(os.listdir("/tmp")):
    if not re.match(SRC + r"_C\d+$", d):
        continue
    prop = d[len(SRC) + 1:]
    for m in sorted(os.listdir(f"/tmp/{d}")):
        if not re.match(r"m\d$", m):
            continue
        name = f"{prop}_{m}"
        v = ver.get(name)
        if v is None or v[0] != 0 or v[1] != 1 or not v[2].startswith("578 passed"):
            print("skip (not valid on the current tree):", name, v)
            continue
        rf = os.path.join(RES, name + ".txt")
        det, keys = [], {}
        if os.path.exists(rf):
            cur = None
            for l in open(rf):
                mm = re.match(r"(C\d+): exit=(\d)", l)
                if mm:
                    cur = mm.group(1)
                    if mm.group(2) == "1":
                        det.append(cur)
                    keys.setdefault(cur, [])
                elif l.startswith("     ") and cur:
                    keys[cur].append(l.strip())
        sid = f"{prop}-{TAG}{m}"
        dst = f"/verif/seeded/{sid}"
        os.makedirs(dst, exist_ok=True)
        for f in ("patch.diff", "demo.py", "notes.md"):
            shutil.copy(f"/tmp/{d}/{m}/{f}", dst)
        notes = open(f"/tmp/{d}/{m}/notes.md").read()
        meta = {
            "id": sid,
            "property": prop,
            "origin": "independent sub-agent given only the property text and a scratch worktree",
            "base_commit": head,
            "what": " ".join(notes.split())[:600],
            "needs_to_manifest": "see notes.md",
            "verified": {
                "existing_suite_with_patch": v[2],
                "demo_exit_with_patch": v[1],
                "demo_exit_clean_tree": v[0],
                "how": "tools/seedverify.sh: fresh worktree of /repo HEAD; demo on clean tree; git apply patch.diff; demo again; pytest -n 4",
            },
            "detected_by": sorted(set(det)),
            "violation_keys": {k: vv[:4] for k, vv in keys.items() if vv},
            "checks_run": "tools/seedcheck.py (patch applied to a scratch copy of /repo's working tree; all 19 quick checks)",
        }
        json.dump(meta, open(os.path.join(dst, "meta.json"), "w"), indent=1)
        out.append((sid, sorted(set(det))))
for sid, det in out:
    print(sid, det or "NOT DETECTED")
print(len(out), "seeds imported;", sum(1 for _, d in out if d), "detected")
