#!/bin/bash
# Run every quick check on /repo and validate evidence files against the schema.
cd /verif
rc=0
for p in C01 C02 C03 C04 C05 C06 C07 C08 C09 C10 C11 C12 C13 C14 C15 C16 C17 C18 C19; do
  out=$(./vcheck run $p --tier ${1:-quick} 2>&1); code=$?
  echo "$out" | grep -E "^(VIOLATION|KNOWN-FINDING|ANALYSIS-ERROR|C[0-9]+ \[)" | cut -c1-200
  [ $code -ne 0 ] && rc=1
done
python3-vt - <<'PY'
import json,jsonschema,glob
sch=json.load(open('/root/.vp/EVIDENCE.schema.json'))
for f in sorted(glob.glob('/verif/evidence/*.json')):
    try:
        jsonschema.validate(json.load(open(f)),sch)
    except Exception as e:
        print('EVIDENCE INVALID',f,str(e)[:200])
print('evidence validated')
PY
exit $rc
