#!/venv/bin/python
"""Regenerate MANIFEST.json from the rule modules' META."""
import importlib, json, os, sys
sys.path.insert(0, "/verif")
props = [json.loads(l) for l in open("/verif/properties.jsonl")]
TECH = {
 "C01": "must-follow path query on inlined effect automaton (save after mutate, all paths/contexts)",
 "C02": "must-precede path query (load before read) + merge-loop exhaustiveness + guard dominance",
 "C03": "AST operator agreement + raise-before-mutate path query + argument-forwarding dataflow",
 "C04": "must-precede path query, receiver-sensitive (load before first mutation)",
 "C05": "guard-dominance + abstract counters + ownership (rebinding) analysis on effect automata",
 "C06": "value-provenance (def-use) of flush decisions and payloads",
 "C07": "guard dominance + all-exits (exceptional) pairing on the flush automata",
 "C08": "ordering/ownership of file operations on all paths + who-may-write scan",
 "C09": "lockset dataflow: single critical section on the root's lock per mutator",
 "C10": "lock-state dataflow at all exits (leak), lock-order graph, grow-only lock table",
 "C11": "taint (validate-before-store) + tag agreement + validator capability/family agreement",
 "C12": "abstract evaluation of classifier predicates over a type table; codec-option scan",
 "C13": "guarded-by (lockset) analysis of class-wide buffer state, context sensitive",
 "C14": "lockset analysis of reader paths (shared-tree mutation, suspend flag)",
 "C15": "paired-delta (inductive invariant) check per buffer-changing site + capacity guard follow-up",
 "C16": "ownership/escape analysis of _data (copy-in via conversion, copy-out)",
 "C17": "must-not-reach (no write sink from readers) + guard dominance for buffered reads",
 "C18": "definition-time class-model evaluation (registry families) + protected-key completeness + forwarding",
 "C19": "3-valued abstract evaluation of memoised classifier predicates (purity per type) + memo discipline",
}
checks = []
for p in props:
    pid = p["id"]
    mod = importlib.import_module(f"vsa.rules.{pid.lower()}")
    meta = mod.META
    c = {
        "property_id": pid,
        "quick_cmd": f"./vcheck run {pid} --tier quick",
        "thorough_cmd": f"./vcheck run {pid} --tier thorough",
        "evidence_file": f"/verif/evidence/{pid}.json",
        "replay_cmd_template": "./vcheck explain {path}",
        "engine": "vsa",
        "level_claimed": {"category": meta["level"], "text": meta["explanation"], "design_ref": f"DESIGN.md section 3, {pid}"},
        "level_note": "; ".join(meta.get("trusted_base", []) + meta.get("assumptions", [])),
        "technique": "static analysis: " + TECH[pid],
    }
    checks.append(c)
m = {
 "version": 1,
 "setup_cmd": "/venv/bin/python -m compileall -q /verif/vsa >/dev/null && ./vcheck selftest --smoke",
 "hooks": {"guard": "SYNCED_COLLECTIONS_VERIF", "enable": "no hooks: every check is static and executes nothing from /repo", "baseline_off_cmd": "cd /repo && /venv/bin/python -m pytest -ra -q -p no:cacheprovider --timeout=900 --continue-on-collection-errors", "source_commits": [], "add_only": True},
 "engines": [{"name": "vsa", "path": "/verif/vsa", "serves_properties": [p["id"] for p in props], "kind_free_text": "pure-stdlib ast engine: class model with definition-time evaluation of __init_subclass__, context-sensitive inlining interpreter producing effect automata (CFG with exception edges), path / lockset / provenance queries, abstract evaluation of classifier predicates"}],
 "checks": checks,
 "notes": "Static-analysis family. Quick = all rules of the property on /repo's working tree. Thorough = quick + rule-instance liveness (each firing variant of the self-test corpus for that property, built as an AST/text edit of a scratch copy of the analysed tree, must be reported and every silent refactor variant must stay silent). Known findings: /verif/known_findings.txt. Demonstrations of the defects: /verif/demos/test_defects.py (not part of any check).",
 "not_applicable": [],
}
json.dump(m, open("/verif/MANIFEST.json", "w"), indent=1)
print("ok", len(checks))
