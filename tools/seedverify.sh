#!/bin/bash
# usage: seedverify.sh <seed dir (with patch.diff, demo.py)>   -> verifies: tests pass with patch; demo fails with, passes without
d=$1; name=$(echo $d | sed "s#/tmp/seed[0-9]*_##; s#/#_#g")
wt=/tmp/vwt_$name
git -C /repo worktree add -q --detach $wt HEAD || exit 2
py=/venv/bin/python; grep -q "numpy" $d/demo.py && py=python3-vt
( cd /tmp && PYTHONPATH=$wt timeout 300 $py $d/demo.py >/dev/null 2>&1 ); clean=$?
if ! git -C $wt apply $d/patch.diff 2>/dev/null; then echo "$name PATCH-FAILS"; git -C /repo worktree remove --force $wt; exit 0; fi
( cd /tmp && PYTHONPATH=$wt timeout 300 $py $d/demo.py >/dev/null 2>&1 ); mut=$?
tests=$(cd $wt && /venv/bin/python -m pytest -q -p no:cacheprovider -n 4 --timeout=900 2>&1 | tail -1)
git -C /repo worktree remove --force $wt
echo "$name demo_clean=$clean demo_patched=$mut tests: $tests"
