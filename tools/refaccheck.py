#!/venv/bin/python
"""False-alarm regression: every behaviour-preserving refactoring kept under /verif/refactorings/<id>/patch.diff
must leave all 19 quick checks silent (exit 0).  Each patch is applied to a scratch copy of /repo's working tree
(removed afterwards); a patch that no longer applies to the current tree is reported as skipped.

usage: refaccheck.py [-j N] [id ...]"""
import os, subprocess, sys
from concurrent.futures import ThreadPoolExecutor

ROOT = "/verif/refactorings"


def one(rid):
    r = subprocess.run(["/verif/tools/seedcheck.py", os.path.join(ROOT, rid)], capture_output=True, text=True)
    out = r.stdout
    if "PATCH FAILED" in out:
        return rid, "skipped (patch does not apply)", ""
    if "DETECTED BY: NONE" in out:
        return rid, "silent", ""
    if ": exit=1" not in out and ": exit=2" in out:
        # no violation reported; the checks say they cannot decide this tree (ANALYSIS-ERROR, exit 2)
        return rid, "undecided (analysis error, no violation reported)", out[-600:]
    return rid, "FALSE-ALARM", out[-1500:]


def main():
    args = sys.argv[1:]
    jobs = 3
    if args[:1] == ["-j"]:
        jobs = int(args[1])
        args = args[2:]
    ids = args or sorted(d for d in os.listdir(ROOT) if os.path.isdir(os.path.join(ROOT, d)))
    bad = 0
    with ThreadPoolExecutor(jobs) as ex:
        for rid, st, info in ex.map(one, ids):
            print(f"{rid}: {st}")
            if st == "FALSE-ALARM":
                bad += 1
                print(info)
            elif st.startswith("undecided"):
                print(info)
    print(f"refaccheck: {len(ids)} refactorings, {bad} false alarms")
    return 1 if bad else 0


sys.exit(main())
